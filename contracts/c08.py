"""C08 — callNovelORF: transcript selection loop, pool filter guard; ORF coordinates (get_orf_sequences)."""
from __future__ import annotations
import types
import z3
from pyvc.contract import Contract, register
from pyvc.core import Unsupported, as_bool
from pyvc.interp import LoopSpec, PyRaise
from pyvc.values import *

CNO = 'moPepGen/cli/call_novel_orf.py'
I_, B_ = z3.IntSort(), z3.BoolSort()


class OpaqueSet:
    """None-able set given by a non-emptiness flag and a membership predicate."""
    def __init__(self, nonempty, member):
        self.nonempty, self.member = nonempty, member

    def sym_truth(self, I):
        return self.nonempty

    def sym_contains(self, I, item):
        return self.member(item)


class GhostList:
    def __init__(self, log, name):
        self.log, self.name = log, name

    def sym_method(self, I, name, args, kwargs):
        self.log.append((self.name, name, args))
        return None

    def sym_truth(self, I):
        return I.e.bool(f'{self.name}_nonempty')


@register
class NovelOrfSelection(Contract):
    path, qualname, props = CNO, 'call_novel_orf_peptide', ('C08', 'C04')
    assumptions = (
        'havoc: call_noncoding_peptide_main returns (peptides, orfs) or raises (ReferenceSeqnameNotFoundError or anything else)',
        'assumed: common.load_references returns (genome, anno, proteome, canonical pool); anno.transcripts iterates N >= 0 transcripts',
        'assumed: VariantPeptidePool.add_peptide/write, write_orf, validate_file_format, print_start_message do not touch the loop state',
    )

    def setup(self, I):
        e = I.e
        st = types.SimpleNamespace()
        st.N = e.int('N')
        e.assume(st.N >= 0)
        st.coding = z3.Function('coding', I_, B_)
        st.txlen = z3.Function('txlen', I_, I_)
        st.inprot = z3.Function('inprot', I_, B_)
        st.incl = z3.Function('incl', I_, B_)      # biotype of tx k is in the inclusion list
        st.excl = z3.Function('excl', I_, B_)
        st.incl_given, st.excl_given = e.bool('inclusion_given'), e.bool('exclusion_given')
        st.coding_novel_orf = e.bool('coding_novel_orf')
        st.min_tx_length = e.int('min_tx_length')
        st.args_obj = SymObj('Namespace', output_path=OpaqueStr(['out']), output_orf=OpaqueStr(['orf']),
                             cleavage_rule='trypsin', cleavage_exception='auto', miscleavage='2', min_mw='500.',
                             min_length=7, max_length=25, coding_novel_orf=st.coding_novel_orf,
                             min_tx_length=st.min_tx_length, orf_assignment='max',
                             w2f_reassignment=e.bool('w2f'))
        st.args = [st.args_obj]
        st.calls = []
        st.log = []
        st.canon = SymObj('CanonicalPool')
        self._cur = st
        return st

    def selected(self, k):
        st = self._cur
        return z3.Or(z3.And(st.coding(k), st.coding_novel_orf),
                     z3.And(z3.Not(st.coding(k)),
                            z3.Or(z3.Not(st.incl_given), st.incl(k)),
                            z3.Or(z3.Not(st.excl_given), z3.Not(st.excl(k))),
                            z3.Not(st.inprot(k)),
                            st.txlen(k) >= st.min_tx_length))

    @property
    def models(self):
        return (self.install_models,)

    def install_models(self, reg):
        c = self
        noop = lambda I, a, k: None
        reg.func_('moPepGen/cli/common.py', 'validate_file_format', noop)
        reg.func_('moPepGen/cli/common.py', 'print_start_message', noop)
        reg.func_(CNO, 'write_orf', noop)
        reg.ext_('open', lambda I, a, k: SymObj('File'))

        def mk_params(I, a, k):
            o = SymObj('CleavageParams', **k)
            c._cur.params = o
            return o
        reg.ctor_('CleavageParams', mk_params)

        def tx_at(k):
            st = c._cur
            kz = k if is_z3(k) else z3.IntVal(k)
            tr = SymObj('GTFSeqFeatureStub', biotype=SymObj('Biotype', k=kz))
            return SymObj('TxModelStub', is_protein_coding=st.coding(kz), transcript=tr, k=kz)

        def load_refs(I, a, k):
            st = c._cur
            I.e.prove('C08/load_references/with-the-run-cleavage-params', k.get('cleavage_params') is st.params)
            st.anno = SymObj('AnnoStub8', transcripts=SymObj('TxDict'))
            st.proteome = OpaqueSet(True, lambda item: st.inprot(item.fields['idx']))
            return (SymObj('Genome'), st.anno, st.proteome, st.canon)
        reg.func_('moPepGen/cli/common.py', 'load_references', load_refs)
        reg.protocol_('TxDict', '__iter__', lambda I, o: FnView(c._cur.N, lambda i: SymObj('TxId', idx=i if is_z3(i) else z3.IntVal(i)), tag='transcripts'))
        reg.protocol_('TxDict', '__getitem__', lambda I, o, key: tx_at(key.fields['idx']))
        reg.method_('TxModelStub', 'transcript_len', lambda I, o, a, k: c._cur.txlen(o.fields['k']))

        def load_biotypes(I, a, k):
            st = c._cur
            inc = OpaqueSet(st.incl_given, lambda item: st.incl(item.fields['k']))
            exc = OpaqueSet(st.excl_given, lambda item: st.excl(item.fields['k']))
            return (inc, exc)
        reg.func_('moPepGen/cli/common.py', 'load_inclusion_exclusion_biotypes', load_biotypes)

        def mk_pool(I, a, k):
            o = SymObj('VariantPeptidePoolStub')
            c._cur.pool = o
            return o
        reg.ctor_('VariantPeptidePool', mk_pool)

        def add_peptide(I, o, a, k):
            st = c._cur
            I.e.prove('C04/callNovelORF/add_peptide-uses-global-canonical-pool', len(a) > 1 and a[1] is st.canon)
            I.e.prove('C04/callNovelORF/add_peptide-uses-run-cleavage-params', len(a) > 2 and a[2] is st.params)
            I.e.prove('C04/callNovelORF/add_peptide-checks-the-peptide', k.get('skip_checking', False) is False and len(a) < 4)
            return I.e.bool('added')
        reg.method_('VariantPeptidePoolStub', 'add_peptide', add_peptide)
        reg.method_('VariantPeptidePoolStub', 'write', lambda I, o, a, k: c._cur.log.append(('write', a)))

        def main_call(I, a, k):
            st = c._cur
            tx = k['tx_id']
            kk = tx.fields['idx']
            st.calls.append(kk)
            I.e.prove('C08/main/model-of-this-transcript', k['tx_model'].fields['k'] is kk or z3.is_true(z3.simplify(k['tx_model'].fields['k'] == kk)))
            I.e.prove('C08/main/denylist-is-global-canonical-pool', k['canonical_peptides'] is st.canon)
            I.e.prove('C08/main/run-cleavage-params', k['cleavage_params'] is st.params)
            ch = I.e.choose(3, 'main outcome')
            if ch == 1:
                raise PyRaise(SymExc('ReferenceSeqnameNotFoundError', ['chrZ']))
            if ch == 2:
                raise PyRaise(SymExc('<any>', ['failure']))
            npep = I.e.int('npep')
            I.e.assume(npep >= 0)
            peptides = FnView(npep, lambda i: SymObj('PeptideRecord', i=i), tag='peptides')
            return (peptides, GhostList(st.log, 'orfs'))
        reg.func_(CNO, 'call_noncoding_peptide_main', main_call)
        reg.method_('ReferenceSeqnameNotFoundError', 'mute', lambda I, o, a, k: None)

    def main_havoc(self, I, env, k):
        env['orf_pool'] = GhostList(self._cur.log, 'orf_pool')

    def main_on_head(self, I, env, k):
        self._cur.calls_before = len(self._cur.calls)

    def main_step(self, I, env, k):
        st = self._cur
        new = st.calls[st.calls_before:]
        sel = self.selected(k)
        if new:
            return [('called-only-if-selected', sel),
                    ('called-once-for-this-transcript', len(new) == 1 and z3.is_true(z3.simplify(new[0] == k)))]
        return [('skipped-only-if-not-selected', z3.Not(sel))]

    @property
    def loops(self):
        T = lambda I, env, k: []
        return {0: LoopSpec(inv=lambda I, env, k: [('i-nonneg', env['i'] >= 0)], havoc=self.main_havoc,
                            on_head=self.main_on_head, step=self.main_step),
                1: LoopSpec(inv=T)}

    def post_return(self, I, st, ret):
        I.e.prove('C08/exit/fasta-written-once', len([x for x in st.log if x[0] == 'write']) == 1)

    def post_raise(self, I, st, exc):
        new = st.calls[getattr(st, 'calls_before', 0):]
        I.e.prove('C08/raise/only-propagated-from-the-per-transcript-call', exc.cls == '<any>' and len(new) == 1)


# ----------------------------------------------------------------------------
# the ORF FASTA: coordinates translate to the listed sequence
# ----------------------------------------------------------------------------
from pyvc.pstr import PStr
from .c09 import install_find

AA = z3.Function('codon_to_residue', I_, I_, I_, I_)


class OrfIdTok:
    def __init__(self, k):
        self.k = k

    def sym_str(self, I):
        return self


@register
class OrfSequences(Contract):
    """for every ORF start s of the peptide graph: the record lists residues i = 0..n-1, residue i being the translation of the codon at
    transcript positions s+3i..s+3i+2; no residue is a stop; the ORF ends at the first stop codon in that frame or, if there is none, with
    the last complete codon of the transcript; the header is tx|gene|orf_id|s-(s+3n)"""
    path, qualname, props = CNO, 'get_orf_sequences', ('C08',)
    models = (install_find,)
    assumptions = ('assumed: record[i:].translate() yields one residue per complete codon of the suffix, residue q = codon table applied to '
                   'bases i+3q..i+3q+2 (Bio.Seq translation as an uninterpreted codon table); slicing a record slices its sequence',
                   'assumed: Seq.find(ch) returns the first index holding ch, or -1; ORF starts are non-negative (below 2^53: int(s / 3))')

    def setup(self, I):
        e = I.e
        st = types.SimpleNamespace(out=[])
        st.L = e.int('tx_len')
        e.assume(st.L >= 0)
        st.tx = PStr.sym(e, 'tx', st.L)
        st.N = e.int('n_orfs')
        e.assume(st.N >= 0)
        st.S = e.array('orf_start')
        zz = lambda i: i if is_z3(i) else z3.IntVal(i)
        st.frames = {}

        def frame(r, hi=None):
            # translation of tx[r:hi] (hi: the transcript end unless given): (hi - r) // 3 residues (r in 0..2; empty when hi < r)
            key = (r, None if hi is None else z3.simplify(zz(hi)).sexpr())
            if key not in st.frames:
                end = st.L if hi is None else z3.If(zz(hi) < 0, z3.If(st.L + zz(hi) < 0, 0, st.L + zz(hi)), z3.If(zz(hi) > st.L, st.L, zz(hi)))
                n = z3.If(end - r >= 0, (end - r) / 3, 0)
                ln = e.int(f'frame{r}_len')
                e.assume(ln == n)
                tr = PStr(ln, lambda q, r=r: AA(st.tx.get(r + 3 * zz(q)), st.tx.get(r + 3 * zz(q) + 1), st.tx.get(r + 3 * zz(q) + 2)), tag=f'frame{r}')
                st.frames[key] = SymObj('AARec', seq=tr, frame=r, id=None, name=None, description=None)
            return st.frames[key]
        st.frame = frame
        st.has_orf = e.bool('tx_has_known_orf')
        st.exclude = e.bool('exclude_canonical_orf')
        st.known_start = e.int('known_orf_start')
        st.known_end = e.int('known_orf_end')
        e.assume(st.known_end >= st.known_start)
        orf = SymObj('FeatureLocation', start=st.known_start, end=st.known_end) if e.branch(st.has_orf, 'known orf') else None
        st.txrec = SymObj('TxRec', seq=st.tx, orf=orf)
        pairs = FnView(st.N, lambda k: ((st.S[zz(k)], SymObj('OrfEnd')), OrfIdTok(zz(k))), tag='orf_id_map.items()')
        st.pgraph = SymObj('PVG', orf_id_map=types.SimpleNamespace(sym_method=lambda I2, name, a, k: pairs if name == 'items' else (_ for _ in ()).throw(Unsupported(name))))
        j = z3.Int('j_s')
        e.assume(z3.ForAll([j], z3.Implies(z3.And(0 <= j, j < st.N), z3.And(0 <= st.S[j], st.S[j] <= st.L))))
        st.args = []
        st.kwargs = dict(pgraph=st.pgraph, tx_id='ENST_T', gene_id='ENSG_G', tx_seq=st.txrec, exclude_canonical_orf=st.exclude)
        self._cur = st
        return st

    @property
    def models(self):
        c = self

        def inst(reg):
            install_find(reg)

            def tx_slice(I, o, lo, hi):
                lo = 0 if lo is None else lo
                if not isinstance(lo, int) or not 0 <= lo <= 2 or not (hi is None or is_sym_int(hi) or isinstance(hi, int)):
                    raise Unsupported('transcript slice other than [r:] / [r:end] with r in 0..2')
                return SymObj('TxSuffix', r=lo, hi=hi)
            reg.protocol_('TxRec', '__getslice__', tx_slice)
            reg.protocol_('TxRec', '__len__', lambda I, o: c._cur.L)
            reg.method_('TxSuffix', 'translate', lambda I, o, a, k: c._cur.frame(o.fields['r'], o.fields['hi']))

            def aa_slice(I, o, lo, hi):
                return SymObj('AARec', seq=I.getitem(o.fields['seq'], SymObj('slice', start=lo, stop=hi, step=None)), frame=o.fields['frame'], id=None, name=None,
                              description=None, _lo=lo, _hi=hi)
            reg.protocol_('AARec', '__getslice__', aa_slice)
        return (inst,)

    def havoc(self, I, env, k):
        env['seqs'] = GhostList(self._cur.out, 'seqs')

    def on_head(self, I, env, k):
        self._cur.mark = len(self._cur.out)

    def step(self, I, env, k):
        st = self._cur
        new = st.out[st.mark:]
        s = st.S[k]
        skipped = z3.And(st.exclude, st.has_orf, st.known_end > st.known_start, st.known_start == s)
        if not new:
            return [('orf-left-out-only-as-the-excluded-known-orf', skipped)]
        items = [('one-record-per-orf', len(new) == 1 and new[0][1] == 'append'), ('known-orf-excluded-when-asked', z3.Not(skipped))]
        rec = new[0][2][0]
        if not (isinstance(rec, SymObj) and isinstance(rec.fields.get('seq'), PStr)):
            return items + [('record-carries-a-sequence', False)]
        y = rec.fields['seq']
        n = y.length()
        n = n if is_z3(n) else z3.IntVal(n)
        i = z3.Int('i_res')
        STOP = ord('*')
        codon = lambda q: AA(st.tx.get(s + 3 * q), st.tx.get(s + 3 * q + 1), st.tx.get(s + 3 * q + 2))
        items.append(('residue-i=translation-of-the-codon-at-start+3i', z3.And(n >= 0, s + 3 * n <= st.L, z3.ForAll([i], z3.Implies(z3.And(0 <= i, i < n), y.get(i) == codon(i))))))
        items.append(('no-stop-inside-the-orf', z3.ForAll([i], z3.Implies(z3.And(0 <= i, i < n), y.get(i) != STOP))))
        items.append(('ends-at-the-first-stop-or-with-the-last-complete-codon', z3.Or(z3.And(s + 3 * n + 3 <= st.L, codon(n) == STOP), s + 3 * n + 3 > st.L)))
        d = rec.fields.get('description')
        okh = isinstance(d, OpaqueStr) and len(d.parts) == 9 and d.parts[0] == 'ENST_T' and d.parts[2] == 'ENSG_G' and d.parts[1] == d.parts[3] == d.parts[5] == '|' \
            and d.parts[7] == '-' and isinstance(d.parts[4], OrfIdTok)
        import os
        if not okh and os.environ.get('PYVC_DEBUG'): print('HDR', d)
        items.append(('header=tx|gene|orf_id|start-end', z3.And(d.parts[4].k == k, d.parts[6] == s, d.parts[8] == s + 3 * n) if okh else False))
        items.append(('id-and-name-carry-the-header', rec.fields.get('id') is d and rec.fields.get('name') is d))
        return items

    @property
    def loops(self):
        return {0: LoopSpec(inv=lambda I, env, k: [], havoc=self.havoc, on_head=self.on_head, step=self.step)}

    def post_return(self, I, st, ret):
        I.e.prove('C08/orf/returns-the-collected-records', isinstance(ret, (GhostList, list)))


# ----------------------------------------------------------------------------
# Native side: bounded oracle for the peptide content (definitional ORF digest) and the ORF FASTA.
# ----------------------------------------------------------------------------
from pyvc.native import NativeCheck
import os, tempfile


class NativeNovelOrf(NativeCheck):
    name = 'novel_orf_oracle'
    props = ('C08',)
    functions = (f'{CNO}:call_novel_orf_peptide', f'{CNO}:get_orf_sequences')
    bounded_for = 'callNovelORF output = definitional three-frame ORF digest minus canonical pool; ORF FASTA coordinates translate to the listed sequence'
    bound = ('demo reference (test/files), trypsin + exception, miscleavage 2; options coding-novel-orf x w2f x orf-assignment(min,max) '
             'x inclusion/exclusion biotype lists x min-tx-length {21, 600}; thorough adds lysc/asp-n and miscleavage 0,1')
    quick_budget_s = 120
    thorough_budget_s = 600

    def cases(self, rng, tier):
        base = [dict(), dict(coding_novel_orf=True), dict(w2f_reassignment=True), dict(orf_assignment='min'),
                dict(min_tx_length=600), dict(inclusion='lncRNA'), dict(exclusion='lncRNA'),
                dict(coding_novel_orf=True, w2f_reassignment=True, inclusion='lncRNA')]
        for b in base:
            yield b
        if tier == 'thorough':
            for rule in ('lysc', 'asp-n'):
                for mc in (0, 1):
                    yield dict(cleavage_rule=rule, miscleavage=str(mc), cleavage_exception=None)

    def check(self, inp):
        from . import cv_run, pyspec
        anno, genome, proteome = cv_run.demo_reference()
        opts = dict(inp)
        tmp = tempfile.mkdtemp(prefix='pyvc_c08_')
        try:
            incl = opts.pop('inclusion', None)
            excl = opts.pop('exclusion', None)
            if incl:
                p = os.path.join(tmp, 'incl.txt'); open(p, 'w').write(incl + '\n'); opts['inclusion_biotypes'] = p
            if excl:
                p = os.path.join(tmp, 'excl.txt'); open(p, 'w').write(excl + '\n'); opts['exclusion_biotypes'] = p
            pep, orf = cv_run.run_call_novel_orf(**opts)
        finally:
            import shutil
            shutil.rmtree(tmp, ignore_errors=True)
        rule = opts.get('cleavage_rule', 'trypsin')
        exc = opts.get('cleavage_exception', 'trypsin_exception')
        mc = int(opts.get('miscleavage', '2'))
        coding_flag = opts.get('coding_novel_orf', False)
        w2f = opts.get('w2f_reassignment', False)
        min_len = opts.get('min_tx_length', 21)
        excl_list = [excl] if excl else [l.rstrip() for l in open(os.path.join(os.path.dirname(cv_run.DATA), '..', 'moPepGen', 'data', 'gencode_hs_exclusion_list.txt'))]
        canon = self._canon(rule, exc, mc)
        # ---- selection (from the property statement)
        selected = []
        for tx_id in anno.transcripts:
            tx = anno.transcripts[tx_id]
            if tx.is_protein_coding:
                if coding_flag:
                    selected.append(tx_id)
                continue
            bt = tx.transcript.biotype
            if incl and bt != incl:
                continue
            if bt in excl_list:
                continue
            if tx_id in proteome:
                continue
            if tx.transcript_len() < min_len:
                continue
            selected.append(tx_id)
        # ---- definitional digest
        expect = set()
        orfs_expected = {}
        for tx_id in selected:
            tx = anno.transcripts[tx_id]
            seq = str(tx.get_transcript_sequence(genome[tx.transcript.chrom]).seq)
            for f in range(3):
                aa_ = pyspec.translate(seq[f:])
                for i, ch in enumerate(aa_):
                    if ch != 'M':
                        continue
                    j = aa_.find('*', i)
                    j = len(aa_) if j == -1 else j
                    o = aa_[i:j]
                    start = f + 3 * i
                    orfs_expected[(tx_id, start)] = o
                    for p in pyspec.digest(o, rule, exc, mc):
                        forms = {p}
                        # W>F forms are taken of the non-canonical digestion products (the reading of
                        # "minus the canonical pool ..., with W>F forms when requested" the code implements)
                        if w2f and p not in canon:
                            forms |= set(pyspec.w2f_forms(p))
                        for q in forms:
                            if q not in canon and pyspec.keep(q, 500., 7, 25):
                                expect.add(q)
        got = set(pep.values())
        if got != expect:
            import hashlib, json as _json
            sig = hashlib.sha256(_json.dumps([sorted(expect - got), sorted(got - expect)]).encode()).hexdigest()[:16]
            return dict(observed=dict(n=len(got), missing=sorted(expect - got)[:8], extra=sorted(got - expect)[:8],
                                      n_missing=len(expect - got), n_extra=len(got - expect)),
                        expected=dict(n=len(expect)), signature=sig)
        # ---- headers name only selected transcripts; ORF FASTA lists exactly the attributed ORFs
        used = set()
        for h in pep:
            for ent in h.split(' '):
                f = ent.split('|')
                if f[0] not in selected:
                    return dict(observed=f'header entry {ent}', expected='transcript selected by the options')
                used.add((f[0], [x for x in f if x.startswith('ORF')][0]))
        listed = set()
        for h, s in orf.items():
            tx_id, gene_id, orf_id, rng_ = h.split('|')
            a, b = (int(x) for x in rng_.split('-'))
            listed.add((tx_id, orf_id))
            tx = anno.transcripts[tx_id]
            seq = str(tx.get_transcript_sequence(genome[tx.transcript.chrom]).seq)
            if pyspec.translate(seq[a:b]) != s or not s.startswith('M'):
                return dict(observed=dict(orf=h, listed=s, translated=pyspec.translate(seq[a:b])),
                            expected='coordinates translate to the listed sequence')
            if orfs_expected.get((tx_id, a)) != s:
                return dict(observed=dict(orf=h, listed=s), expected=f'ORF from the M at {a} to the next stop or transcript end')
        if not used <= listed:
            return dict(observed=dict(attributed_but_not_listed=sorted(used - listed)[:5]), expected='ORF FASTA lists the ORFs the peptides are attributed to')
        # a peptide is a digestion product of the ORF it is attributed to: it occurs in the listed sequence of that ORF (W>F forms aside)
        by_id = {}
        for h, s in orf.items():
            tx_id, gene_id, orf_id, rng_ = h.split('|')
            by_id[(tx_id, orf_id)] = s
        for h, seq_ in pep.items():
            for ent in h.split(' '):
                f = ent.split('|')
                if any(x.startswith('W2F-') for x in f):
                    continue
                oid = [x for x in f if x.startswith('ORF')][0]
                if seq_ not in by_id.get((f[0], oid), ''):
                    return dict(observed=dict(peptide=seq_, entry=ent, orf=by_id.get((f[0], oid))), expected='the peptide occurs in the ORF it is attributed to',
                                signature='peptide-attributed-to-an-orf-that-does-not-contain-it')
        return None

    def _canon(self, rule, exc, mc):
        from . import cv_run, pyspec
        key = (rule, exc, mc)
        if not hasattr(self, '_c'):
            self._c = {}
        if key not in self._c:
            anno, genome, proteome = cv_run.demo_reference()
            nf = {t for t in proteome if t in anno.transcripts and anno.transcripts[t].is_cds_start_nf()}
            self._c[key] = pyspec.canonical_pool({t: str(p.seq) for t, p in proteome.items()}, rule, exc, mc, cds_start_nf=nf)
        return self._c[key]


NATIVE = [NativeNovelOrf()]


# ----------------------------------------------------------------------------
# the ORF FASTA
# ----------------------------------------------------------------------------
from .c18c import PoolWrite as _PoolWrite18


@register
class WriteOrf(_PoolWrite18):
    """write_orf(orfs, handle): every ORF record collected is handed to the FASTA writer on the given handle exactly once, in order, titled with its
    description (tx|gene|orf id|start-end)"""
    path, qualname, props = 'moPepGen/cli/call_novel_orf.py', 'write_orf', ('C08',)

    def setup(self, I):
        st = types.SimpleNamespace(log=[])
        st.n = I.e.int('n_orfs')
        I.e.assume(st.n >= 0)
        zz = lambda i: i if is_z3(i) else z3.IntVal(i)
        st.records = FnView(st.n, lambda i: SymObj('Pep18w', i=zz(i), description=SymObj('Header18w', i=zz(i)), id=SymObj('FirstWord18w', i=zz(i)), name=SymObj('FirstWord18w', i=zz(i))),
                            tag='ORF records')
        st.handle = SymObj('File18w')
        st.args = [st.records, st.handle]
        self._cur = st
        return st

    def post_return(self, I, st, ret):
        e = I.e
        ws = [x for x in st.log if x[0] == 'writer']
        e.prove('C08/write-orf/nothing-is-opened-the-given-handle-is-used', z3.BoolVal(not [x for x in st.log if x[0] == 'open']))
        ok = len(ws) == 1 and ws[0][1] is st.handle and ws[0][2] is not None
        title = None
        if ok:
            probe = SymObj('Pep18w', i=z3.IntVal(0), description=SymObj('Header18w', i=z3.IntVal(0)), id=SymObj('FirstWord18w', i=z3.IntVal(0)), name=SymObj('FirstWord18w', i=z3.IntVal(0)))
            title = I.call(ws[0][2], [probe], {})
        e.prove('C08/write-orf/one-writer-on-the-given-handle-whose-title-is-the-description-of-the-record', z3.BoolVal(bool(ok and isinstance(title, SymObj) and title.cls == 'Header18w')))
