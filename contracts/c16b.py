"""C16 — the rMATS table reader in front of the record classes: every row after the column header becomes one record of the class of the event type."""
from __future__ import annotations
import types
import z3
from pyvc.contract import Contract, register
from pyvc.core import Unsupported
from pyvc.interp import LoopSpec
from pyvc.values import *
from . import tables as T

RM = 'moPepGen/parser/RMATSParser/__init__.py'
CLASSES = {'SE': 'SERecord', 'A5SS': 'A5SSRecord', 'A3SS': 'A3SSRecord', 'MXE': 'MXERecord', 'RI': 'RIRecord'}


class _RmatsParse(Contract):
    """RMATSParser.parse(path, event_type): the first line (column header) is dropped unread; every further line yields exactly one record, in file order,
    made by readline of the record class of the event type from that very line; nothing ends the loop early (readline itself is under its own contract)"""
    path, qualname, props = RM, 'parse', ('C16',)
    event = 'SE'

    def name(self):
        return f'{self.path}:{self.qualname}[{self.event}]'

    def setup(self, I):
        st = types.SimpleNamespace(yielded=[])
        st.tab = T.Table(I, 23, 'rMATS_table')
        st.args = [OpaqueStr(['events.txt']), self.event]
        if T.first_loop_kind(I, self.path, self.qualname) != 'for':
            raise Unsupported('the reader is not written as `for line in handle` (this contract follows that form)')
        self._cur = st
        return st

    @property
    def models(self):
        c = self

        def inst(reg):
            reg.ext_('open', lambda I, a, k: c._cur.tab.file)
            for ev, cls in CLASSES.items():
                h = lambda I, a, k, cls=cls: SymObj('RmatsRow16b', made_by=cls, line=a[-1] if a else None)
                reg.method_(cls, 'readline', lambda I, obj, a, k, h=h: h(I, a, k))
                reg.func_(f'moPepGen/parser/RMATSParser/{cls}.py', f'{cls}.readline', h)
            reg.on_yield = lambda I, frame, v: c._cur.yielded.append(v)
        return (inst,)

    def head(self, I, env, k):
        self._cur.mark = len(self._cur.yielded)

    def step(self, I, env, k):
        st = self._cur
        new = st.yielded[st.mark:]
        if len(new) != 1 or not (isinstance(new[0], SymObj) and new[0].cls == 'RmatsRow16b'):
            return [('one-record-per-line-after-the-header', False)]
        r = new[0]
        ln = r.fields['line']
        return [('the-record-is-made-by-the-class-of-the-event-type', z3.BoolVal(r.fields['made_by'] == CLASSES[self.event])),
                ('the-record-is-read-from-this-line-the-header-being-line-0', z3.BoolVal(bool(isinstance(ln, T.TLine) and not ln.stripped and T.same(ln.k, T.zz(k) + 1))))]

    @property
    def loops(self):
        return {0: LoopSpec(inv=lambda I, env, k: [], on_head=self.head, step=self.step, target_after='unknown',
                            on_break=lambda I, env, k: [('every-line-is-visited', False)],
                            on_exit=lambda I, env, k: [('all-lines-after-the-header-were-visited', z3.Or(T.zz(k) + 1 == self._cur.tab.n, self._cur.tab.n == 0))])}


for _ev in CLASSES:
    register(type(f'RmatsParse_{_ev}', (_RmatsParse,), dict(event=_ev, __doc__=_RmatsParse.__doc__)))
