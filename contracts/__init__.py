"""Sidecar contracts: one module per property (the repository files are not edited)."""
