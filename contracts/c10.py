"""C10 — canonical pool = in-silico digest: rule semantics (regex windows), site/range pairing,
site iteration, parameter flow into create_unique_peptide_pool."""
from __future__ import annotations
import ast, types
import z3
from pyvc.contract import Contract, Lemma, register, FunctionResult
from pyvc.core import Unsupported, as_bool
from pyvc.interp import LoopSpec, PyRaise
from pyvc.values import *
from pyvc import rewin
from pyvc.repo import RepoIndex
from . import pyspec

ER = 'moPepGen/aa/expasy_rules.py'
AAR = 'moPepGen/aa/AminoAcidSeqRecord.py'


def real_dict(repo, name):
    m = repo.module(ER)
    return ast.literal_eval(m.consts[name])


def spec_cell(spec, cell):
    if spec == pyspec.W:
        return z3.And(cell >= 0, cell <= 25)
    if spec.startswith('^'):
        return z3.And(cell != rewin.ABSENT, *[cell != rewin.CODE[c] for c in spec[1:]])
    return z3.Or(*[cell == rewin.CODE[c] for c in spec])


def spec_site(rule, win, start=0):
    """ExPASy rule (pyspec.RULES) as a predicate; the consumed residue P1 sits at `start`."""
    alts = []
    for alt in pyspec.RULES[rule]:
        alts.append(z3.And(*[spec_cell(s, win.cell(start + pyspec.POS[p] + 1)) for p, s in alt.items()]))
    return z3.Or(*alts)


def top_alts(pattern):
    items = rewin.parse(pattern)
    if len(items) == 1 and items[0][0] is rewin.sre_c.BRANCH:
        return [list(a) for a in items[0][1][1]]
    return [items]


@register
class RuleSemantics(Lemma):
    """O1: every regex of the real EXPASY_RULES dict, matched at any position of any string, is
    the ExPASy rule written in contracts/pyspec.py; each match consumes exactly one residue."""
    qualname, props = 'expasy_rule_semantics', ('C10', 'C20')
    timeout_ms = 20000

    def obligations(self, e):
        repo = RepoIndex()
        rules = real_dict(repo, 'EXPASY_RULES')
        obs = []
        win = rewin.Window(-4, 3)
        wf = [win.well_formed()]
        obs.append(('rule-set/every-specified-rule-is-present', [], z3.BoolVal(set(pyspec.RULES) <= set(rules))))
        obs.append(('rule-set/every-real-rule-has-a-spec', [], z3.BoolVal(set(rules) <= set(pyspec.RULES))))
        for name, pat in sorted(rules.items()):
            if name not in pyspec.RULES:
                continue
            try:
                cond, alts = rewin.matches_at(pat, 0, win)
            except rewin.UnsupportedRegex as ex:
                raise Unsupported(f'regex of {name}: {ex}')
            obs.append((f'{name}/consumes-exactly-one-residue', [], z3.BoolVal(all(a[1] == 1 for a in alts))))
            obs.append((f'{name}/site-iff-expasy-rule', wf, cond == spec_site(name, win, 0)))
        return obs


@register
class SiteRangePairing(Lemma):
    """O2: for every rule the range patterns (EXPASY_RULES2, regex overlapped=True) pair one-to-one
    and in order with the cleavage sites (EXPASY_RULES): the ValueError('Inconsistent cleavage sites')
    branch of iter_enzymatic_cleave_sites_with_range is unreachable and zip() pairs each site with
    the range recognised around it."""
    qualname, props = 'site_range_pairing', ('C10',)
    timeout_ms = 30000

    def obligations(self, e):
        repo = RepoIndex()
        rules = real_dict(repo, 'EXPASY_RULES')
        rules2 = real_dict(repo, 'EXPASY_RULES2')
        obs = [('same-rule-names', [], z3.BoolVal(set(rules) == set(rules2)))]
        for name in sorted(rules):
            if name not in rules2:
                continue
            win = rewin.Window(-10, 12)
            wf = [win.well_formed()]
            salts = top_alts(rules[name])
            ralts = top_alts(rules2[name])
            obs.append((f'{name}/same-number-of-alternatives', [], z3.BoolVal(len(salts) == len(ralts))))
            if len(salts) != len(ralts):
                continue
            b = []
            for sa in salts:
                lo, hi = rewin.lookbehind_span(_unparse(sa))
                b.append(lo)
            def first_alt_at(j):
                """list of conditions: range alternative k is the first one matching at start j"""
                out, earlier = [], []
                for k, ra in enumerate(ralts):
                    m = rewin.match(ra, j, win)
                    c = z3.Or(*[x[0] for x in m]) if m else z3.BoolVal(False)
                    out.append(z3.And(c, *[z3.Not(x) for x in earlier]))
                    earlier.append(c)
                return out
            def site_at(i):
                m = rewin.match(rewin.parse(rules[name]), i, win)
                return z3.Or(*[x[0] for x in m]) if m else z3.BoolVal(False)
            r0 = first_alt_at(0)
            # (a) a range starting at 0 through alternative k contains a site right after its b_k-th residue
            obs.append((f'{name}/range-has-its-site', wf,
                        z3.And(*[z3.Implies(r0[k], site_at(b[k])) for k in range(len(ralts))])))
            # (b) every site lies in the range that starts b_k residues before it, for some k
            obs.append((f'{name}/site-has-its-range', wf,
                        z3.Implies(site_at(0), z3.Or(*[first_alt_at(-b[k])[k] for k in range(len(ralts))]))))
            # (c) order preserving: a later range start has a later site
            conj = []
            for d in range(1, max(b) + 2):
                rd = first_alt_at(d)
                for k in range(len(ralts)):
                    for k2 in range(len(ralts)):
                        if not b[k] < d + b[k2]:
                            conj.append(z3.Not(z3.And(r0[k], rd[k2])))
            obs.append((f'{name}/order-preserving', wf, z3.And(*conj) if conj else z3.BoolVal(True)))
            # (d) the range covers the site: start < site end <= range end
            rng_ok = []
            for k, ra in enumerate(ralts):
                w = rewin.width(ra)
                rng_ok.append(w is not None and 0 <= b[k] < w)
            obs.append((f'{name}/site-inside-range', [], z3.BoolVal(all(rng_ok))))
        return obs


def _unparse(items):
    """re-create a pattern string for one alternative (only used for span computation)"""
    class P:
        pass
    # lookbehind_span works on parsed items: wrap
    return _Items(items)


class _Items(str):
    def __new__(cls, items):
        o = str.__new__(cls, '<items>')
        o.items = items
        return o


_orig_parse = rewin.parse


def _parse(p):
    if isinstance(p, _Items):
        return p.items
    return _orig_parse(p)


rewin.parse = _parse


# ----------------------------------------------------------------------------
# O3: iter_enzymatic_cleave_sites — the real generator, re.finditer as an assumed contract
# ----------------------------------------------------------------------------
I_, B_ = z3.IntSort(), z3.BoolSort()


class PatternObj:
    def __init__(self, name):
        self.name = name

    def sym_eq(self, I, other):
        return isinstance(other, PatternObj) and other.name == self.name


def finditer_model(st):
    """re.finditer(P, s) for a pattern consuming one character per match: the ascending list of all
    positions i+1 with site_P(i) (assumed contract of CPython's re, cross-checked natively)."""
    def hook(I, a, k):
        pat = a[0]
        name = pat.name if isinstance(pat, PatternObj) else None
        if name is None or a[1] is not st.seqstr:
            raise Unsupported('re.finditer on something that is not a rule pattern over str(self.seq)')
        site = st.site[name]
        e = I.e
        n = e.int(f'n_{name}')
        M = z3.Array(e.fresh_name(f'M_{name}'), I_, I_)
        j, j2, i = z3.Ints(f'fj_{name} fj2_{name} fi_{name}')
        e.assume(n >= 0)
        e.assume(z3.ForAll([j], z3.Implies(z3.And(0 <= j, j < n), z3.And(M[j] >= 1, M[j] <= st.L, site(M[j] - 1)))))
        e.assume(z3.ForAll([j, j2], z3.Implies(z3.And(0 <= j, j < j2, j2 < n), M[j] < M[j2])))
        w = z3.Function(e.fresh_name(f'wit_{name}'), I_, I_)
        e.assume(z3.ForAll([i], z3.Implies(z3.And(0 <= i, i < st.L, site(i)),
                                           z3.And(0 <= w(i), w(i) < n, M[w(i)] == i + 1))))
        st.matches[name] = (n, M)
        def match_at(t):
            m = SymObj('Match', endpos=M[t])
            return m
        return FnView(n, match_at, tag=f'finditer({name})')
    return hook


@register
class IterSites(Contract):
    path, qualname, props = AAR, 'AminoAcidSeqRecord.iter_enzymatic_cleave_sites', ('C10', 'C20')
    assumptions = ('assumed: re.finditer(P, s) returns all matches of a one-character pattern in ascending order (CPython re; cross-checked natively)',
                   'assumed: EXPASY_RULES is a dict from rule name to pattern (its values are verified by lemma expasy_rule_semantics)')

    def setup(self, I):
        e = I.e
        st = types.SimpleNamespace()
        st.L = e.int('L')
        e.assume(st.L >= 0)
        st.site = {'R': z3.Function('site_R', I_, B_), 'E': z3.Function('site_E', I_, B_),
                   'other': z3.Function('site_other', I_, B_)}
        st.matches = {}
        st.seqstr = OpaqueStr(['str(self.seq)'])
        st.seq = SymObj('Seq')
        st.self = SymObj('AminoAcidSeqRecord', seq=st.seq)
        # exception argument: None, the name of a rule, or a string that is not a rule name
        ch = e.choose(3, 'exception kind')
        st.exc_kind = ch
        st.exception = [None, 'RULE_E', 'not-a-rule'][ch]
        st.args = [st.self, 'RULE_R']
        st.kwargs = dict(exception=st.exception)
        st.yielded = []
        self._cur = st
        return st

    @property
    def models(self):
        return (self.install_models,)

    def install_models(self, reg):
        c = self
        class RulesDict:
            def sym_getitem(s, I, key):
                if key == 'RULE_R':
                    return PatternObj('R')
                if key == 'RULE_E':
                    return PatternObj('E')
                I.raise_('KeyError', key)
            def sym_method(s, I, name, a, k):
                if name == 'get':
                    if a[0] == 'RULE_R':
                        return PatternObj('R')
                    if a[0] == 'RULE_E':
                        return PatternObj('E')
                    if isinstance(a[0], str):
                        return PatternObj('other') if (len(a) > 1 and a[1] == a[0]) else (a[1] if len(a) > 1 else None)
                    return a[1] if len(a) > 1 else None
                raise Unsupported(name)
        reg.global_(AAR, 'EXPASY_RULES', RulesDict())
        reg.ext_('re.finditer', lambda I, a, k: finditer_model(c._cur)(I, a, k))
        reg.str_hooks.append(lambda v: (lambda I, v: c._cur.seqstr) if v is c._cur.seq else None)
        reg.method_('Match', 'end', lambda I, o, a, k: o.fields['endpos'])

    def on_head(self, I, env, k):
        fr = [f for f in I.frames if f.qualname == self.qualname][-1]
        self._cur.y0 = len(fr.yields)
        self._cur.frame = fr

    def step(self, I, env, k):
        st = self._cur
        new = st.frame.yields[st.y0:]
        n, M = st.matches['R']
        s = M[k]
        exc = self.in_exception(s)
        if new:
            return [('yield-at-most-once', len(new) == 1),
                    ('yielded-is-this-site', new[0] == s),
                    ('yielded-not-an-exception-site', z3.Not(exc))]
        return [('skipped-only-exception-sites', exc)]

    def in_exception(self, s):
        st = self._cur
        if st.exc_kind == 0:
            return z3.BoolVal(False)
        name = 'E' if st.exc_kind == 1 else 'other'
        return z3.And(s >= 1, s <= st.L, st.site[name](s - 1))

    @property
    def loops(self):
        return {0: LoopSpec(inv=lambda I, env, k: [], on_head=self.on_head, step=self.step)}

    def post_return(self, I, st, ret):
        I.e.prove('C10/O3/iterates-all-matches-of-the-rule', 'R' in st.matches)


# ----------------------------------------------------------------------------
# O6: parameter flow — the six arguments that reach create_unique_peptide_pool are the six
# fields of the CleavageParams the pool is registered with / looked up by / used with.
# ----------------------------------------------------------------------------
GI = 'moPepGen/cli/generate_index.py'
UI = 'moPepGen/cli/update_index.py'
CM = 'moPepGen/cli/common.py'


class ParamFlow(Contract):
    """shared machinery: symbolic args, stubs for the index directory and the loaders"""
    props = ('C10', 'C12', 'C06', 'C04')      # C04: the canonical pool that variant peptides are filtered against is digested with the run's parameters
    declared_raises = None
    assumptions = ('assumed: IndexDir / loaders / print_start_message are stubs that record the calls (their own contracts are in contracts/c12.py)',
                   'assumed: args.* are the argparse values: strings for rule/exception, ints for miscleavage/min_length/max_length, a float for min_mw')

    def mk_args(self, I):
        e = I.e
        st = types.SimpleNamespace()
        S = e.StrSort
        st.rule = SymStr(z3.Const('arg_rule', S))
        # the exception as given on the command line: None, 'auto' (the CLI default) or another name
        ch = e.choose(3, 'exception given')
        st.exc_raw = [None, 'auto', SymStr(z3.Const('arg_exception', S))][ch]
        if ch == 2:
            e.assume(st.exc_raw.term != e.strlit('auto'))
        st.misc, st.minlen, st.maxlen = e.int('arg_miscleavage'), e.int('arg_min_length'), e.int('arg_max_length')
        st.minmw = e.real('arg_min_mw')
        st.force = e.bool('force')
        st.calls = []
        st.saved = []
        st.loaded = []
        st.exists = e.bool('pool_exists')
        st.argsobj = SymObj('Namespace', cleavage_rule=st.rule, cleavage_exception=st.exc_raw, miscleavage=st.misc,
                            min_mw=st.minmw, min_length=st.minlen, max_length=st.maxlen, force=st.force,
                            genome_fasta=SymObj('PathStub'), annotation_gtf=SymObj('PathStub'),
                            proteome_fasta=SymObj('PathStub'), output_dir=SymObj('PathStub'),
                            index_dir=SymObj('PathStub'), reference_source=OpaqueStr(['source']), gtf_symlink=e.bool('gtf_symlink'),
                            invalid_protein_as_noncoding=e.bool('ipan'), quiet=True)
        self._cur = st
        return st

    def resolved_exception(self, I, st):
        """what CleavageParams(exception=raw) resolves to, from the property statement"""
        e = I.e
        if st.exc_raw is None:
            return ('none', None)
        if st.exc_raw == 'auto':
            return ('auto', st.rule.term == e.strlit('trypsin'))
        return ('given', st.exc_raw.term)

    def check_flow(self, I, kw, cp, what):
        """kw: keyword arguments of create_unique_peptide_pool; cp: CleavageParams SymObj"""
        e = I.e
        def same(a, b):
            r = I.eq(a, b)
            return r
        e.prove(f'C10/O6/{what}/rule=enzyme', same(kw.get('rule'), cp.fields['enzyme']))
        e.prove(f'C10/O6/{what}/exception=resolved-exception', same(kw.get('exception'), cp.fields['exception']))
        e.prove(f'C10/O6/{what}/miscleavage', same(kw.get('miscleavage'), cp.fields['miscleavage']))
        e.prove(f'C10/O6/{what}/min_mw', same(kw.get('min_mw'), cp.fields['min_mw']))
        e.prove(f'C10/O6/{what}/min_length', same(kw.get('min_length'), cp.fields['min_length']))
        e.prove(f'C10/O6/{what}/max_length', same(kw.get('max_length'), cp.fields['max_length']))

    @property
    def models(self):
        return (self.install_models,)

    def install_models(self, reg):
        c = self
        noop = lambda I, a, k: None
        reg.func_(CM, 'print_start_message', noop)
        reg.func_(CM, 'validate_file_format', noop)
        reg.method_('PathStub', 'mkdir', lambda I, o, a, k: None)
        reg.method_('PathStub', 'iterdir', lambda I, o, a, k: FnView(I.e.int('n_entries_in_dir'), lambda i: True, tag='iterdir'))

        def sys_exit(I, a, k):
            raise PyRaise(SymExc('SystemExit', list(a)))
        reg.ext_('sys.exit', sys_exit)

        def mk_index_dir(I, a, k):
            st = c._cur
            meta = SymObj('IndexMetadataStub', source=None)
            d = SymObj('IndexDirStub', path=a[0], metadata=meta)
            st.index_dir = d
            return d
        reg.ctor_('IndexDir', mk_index_dir)
        for m in ('wipe_canonical_peptides', 'init_metadata', 'save_genome', 'save_proteome', 'save_coding_tx',
                  'save_metadata', 'validate_metadata', 'load_genome'):
            reg.method_('IndexDirStub', m, lambda I, o, a, k, m=m: c._cur.calls.append((m, a, k)))
        def save_annotation(I, o, a, k):
            st = c._cur
            # bind the call on the REAL signature of IndexDir.save_annotation
            mod, cls, fnode = I.repo.function_node('moPepGen/index.py', 'IndexDir.save_annotation')
            from pyvc.interp import Env
            env = Env({})
            I.bind_args(fnode.args, [o] + list(a), k, env, 'save_annotation')
            b = env.vars
            ao = st.argsobj.fields
            I.e.prove('C12/generate_index/save_annotation/file-is-the-annotation-gtf', b['file'] is ao['annotation_gtf'])
            I.e.prove('C12/generate_index/save_annotation/source', b['source'] is ao['reference_source'])
            I.e.prove('C12/generate_index/save_annotation/proteome-is-the-loaded-proteome', isinstance(b['proteome'], SymObj) and b['proteome'].cls == 'ProteomeStub')
            I.e.prove('C12/generate_index/save_annotation/invalid_protein_as_noncoding', b['invalid_protein_as_noncoding'] is ao['invalid_protein_as_noncoding'])
            I.e.prove('C12/generate_index/save_annotation/symlink', b['symlink'] is ao['gtf_symlink'])
            st.calls.append(('save_annotation', [b['proteome']], {}))
            return SymObj('AnnoStub10', source='GENCODE', transcripts={})
        reg.method_('IndexDirStub', 'save_annotation', save_annotation)
        reg.method_('IndexDirStub', 'load_annotation', lambda I, o, a, k: SymObj('AnnoStub10', source='GENCODE', transcripts={}))
        def check_pc(I, o, a, k):
            c._cur.calls.append(('check_protein_coding', list(a), dict(k)))
        reg.method_('AnnoStub10', 'check_protein_coding', check_pc)
        reg.method_('AnnoStub10', 'generate_index', lambda I, o, a, k: None)
        reg.ctor_('GenomicAnnotationOnDisk', lambda I, a, k: SymObj('AnnoStub10', source='GENCODE', transcripts={}))

        def mk_proteome(I, a, k):
            return SymObj('ProteomeStub')
        reg.ctor_('AminoAcidSeqDict', mk_proteome)
        reg.method_('IndexDirStub', 'load_proteome', lambda I, o, a, k: SymObj('ProteomeStub'))
        reg.method_('ProteomeStub', 'dump_fasta', lambda I, o, a, k: None)
        reg.ctor_('DNASeqDict', lambda I, a, k: SymObj('GenomeStub'))
        reg.method_('GenomeStub', 'dump_fasta', lambda I, o, a, k: None)

        def pool_builder(I, o, a, k):
            st = c._cur
            I.e.prove('C10/O6/pool-builder/keyword-arguments-only', len(a) == 0)
            pool = SymObj('Pool', built_with=dict(k))
            st.calls.append(('create_unique_peptide_pool', a, k))
            st.pool = pool
            return pool
        reg.method_('ProteomeStub', 'create_unique_peptide_pool', pool_builder)

        def save_pool(I, o, a, k):
            st = c._cur
            seqs, cp = a[0], a[1]
            st.saved.append((seqs, cp, k))
            if isinstance(seqs, SymObj) and seqs.cls == 'Pool':
                c.check_flow(I, seqs.fields['built_with'], cp, 'saved-pool')
            else:
                I.e.prove('C10/O6/saved-pool/is-the-pool-just-built', False)
            return None
        reg.method_('IndexDirStub', 'save_canonical_peptides', save_pool)

        def get_pool(I, o, a, k):
            st = c._cur
            st.lookup_params = a[0]
            return SymObj('PoolMeta') if I.e.branch(st.exists, 'pool exists') else None
        reg.method_('IndexMetadataStub', 'get_canonical_pool', get_pool)

        def load_pool(I, o, a, k):
            st = c._cur
            st.loaded.append(a[0] if a else k.get('cleavage_params'))
            return SymObj('Pool', built_with=None)
        reg.method_('IndexDirStub', 'load_canonical_peptides', load_pool)


@register
class GenerateIndexFlow(ParamFlow):
    path, qualname = GI, 'generate_index'

    def setup(self, I):
        st = self.mk_args(I)
        st.args = [st.argsobj]
        return st

    def post_return(self, I, st, ret):
        e = I.e
        e.prove('C10/O6/generate_index/pool-built-and-saved-once',
                len([x for x in st.calls if x[0] == 'create_unique_peptide_pool']) == 1 and len(st.saved) == 1)
        names = [x[0] for x in st.calls]
        first = lambda nm: names.index(nm) if nm in names else None
        once = lambda nm: names.count(nm) == 1
        e.prove('C12/generate_index/genome-proteome-annotation-coding-transcripts-and-metadata-each-saved-once-the-metadata-last',
                all(once(nm) for nm in ('save_genome', 'save_proteome', 'save_annotation', 'save_coding_tx', 'save_metadata')) and names[-1] == 'save_metadata')
        # what load_proteome returns later must be the proteome that was given: the annotation check (with --invalid-protein-as-noncoding)
        # removes entries from the object and the digestion rewrites sequences in place, so it is pickled before either
        sp = first('save_proteome')
        ok = sp is not None and isinstance(st.calls[sp][1][0] if st.calls[sp][1] else None, SymObj) and st.calls[sp][1][0].cls == 'ProteomeStub'
        e.prove('C12/generate_index/the-proteome-is-saved-as-parsed-before-the-annotation-check-and-the-digestion-can-change-it',
                ok and all(first(nm) is not None and sp < first(nm) for nm in ('save_annotation', 'create_unique_peptide_pool')))
        if 'wipe_canonical_peptides' in names:
            w = first('wipe_canonical_peptides')
            saves = [i for i, nm in enumerate(names) if nm.startswith('save_')]
            im = first('init_metadata')
            # so that the recorded versions are those of this run
            e.prove('C12/generate_index/force/after-wiping-the-old-pools-the-metadata-is-initialised-again-before-anything-is-written',
                    im is not None and w < im and all(im < i for i in saves))

    def post_raise(self, I, st, exc):
        I.e.prove('C12/generate_index/exit-only-when-directory-exists-without-force',
                  exc.cls == 'SystemExit' and not st.saved)


@register
class UpdateIndexFlow(ParamFlow):
    path, qualname = UI, 'update_index'

    def setup(self, I):
        st = self.mk_args(I)
        st.args = [st.argsobj]
        return st

    def post_return(self, I, st, ret):
        e = I.e
        I.e.prove('C10/O6/update_index/pool-built-and-saved-once',
                  len([x for x in st.calls if x[0] == 'create_unique_peptide_pool']) == 1 and len(st.saved) == 1)
        seqs, cp, kw = st.saved[0]
        I.e.prove('C12/update_index/validated-before-anything-else', st.calls and st.calls[0][0] == 'validate_metadata')
        I.e.prove('C12/update_index/lookup-and-save-use-the-same-parameters', st.lookup_params is cp)
        ov = kw.get('override', False)
        I.e.prove('C12/update_index/override-iff-force', I.eq(ov, st.force))
        I.e.prove('C12/update_index/existing-pool-replaced-only-with-force', z3.Implies(st.exists, st.force))
        saved_meta = any(x[0] == 'save_metadata' for x in st.calls)
        # the branch on pool_exists was decided on this path: metadata saved iff the pool was new
        I.e.prove('C12/update_index/metadata-saved-iff-new-pool', z3.If(st.exists, not saved_meta, saved_meta))

    def post_raise(self, I, st, exc):
        I.e.prove('C12/update_index/exit-only-when-pool-exists-without-force',
                  z3.And(exc.cls == 'SystemExit', st.exists, z3.Not(st.force)))
        I.e.prove('C12/update_index/nothing-written-on-exit', not st.saved and not any(x[0] == 'save_metadata' for x in st.calls))


@register
class LoadReferencesFlow(ParamFlow):
    path, qualname = CM, 'load_references'

    def setup(self, I):
        st = self.mk_args(I)
        e = I.e
        # requires (from every call site): cleavage_params was constructed from the same args
        reg_ctor = None
        st.use_index = e.bool('use_index_dir')
        if not e.branch(st.use_index, 'index dir given'):
            st.argsobj.fields['index_dir'] = None
        # build the real CleavageParams through its real constructor
        from pyvc.values import ClassRef
        cp = I.construct(ClassRef('CleavageParams', I.repo.get_class('CleavageParams')), [],
                         dict(enzyme=st.rule, exception=st.exc_raw, miscleavage=st.misc, min_mw=st.minmw,
                              min_length=st.minlen, max_length=st.maxlen))
        st.cp = cp
        st.args = [st.argsobj]
        st.lcp = e.bool('load_canonical_peptides')
        st.kwargs = dict(load_genome=e.bool('load_genome'), load_canonical_peptides=st.lcp,
                         load_proteome=e.bool('load_proteome'), invalid_protein_as_noncoding=e.bool('ipan2'),
                         check_protein_coding=e.bool('cpc'), cleavage_params=cp)
        return st

    def post_return(self, I, st, ret):
        built = [x for x in st.calls if x[0] == 'create_unique_peptide_pool']
        if built:
            self.check_flow(I, built[0][2], st.cp, 'on-the-fly-pool')
            I.e.prove('C10/O6/load_references/on-the-fly-only-without-index-dir-and-when-a-pool-is-wanted', z3.And(z3.Not(st.use_index), st.lcp))
            I.e.prove('C10/O6/load_references/returns-the-pool', isinstance(ret[3], SymObj) and ret[3].cls == 'Pool')
        elif st.loaded:
            I.e.prove('C10/O6/load_references/index-pool-looked-up-by-the-run-parameters',
                      z3.And(st.use_index, st.lcp, len(st.loaded) == 1 and st.loaded[0] is st.cp))
            I.e.prove('C10/O6/load_references/returns-the-pool', isinstance(ret[3], SymObj) and ret[3].cls == 'Pool')
        else:
            I.e.prove('C10/O6/load_references/no-pool-only-when-none-is-wanted', z3.And(z3.Not(st.lcp), ret[3] is None))
        # whatever is loaded from an index directory is loaded only after its metadata (versions) was validated
        I.e.prove('C12/load_references/index-validated-before-anything-is-loaded-from-it',
                  z3.Implies(st.use_index, bool(st.calls) and st.calls[0][0] == 'validate_metadata'))
        # the coding status of the annotation is (re)computed against the loaded proteome with the caller's
        # invalid_protein_as_noncoding: with raw files whenever a proteome is read, with an index only when asked
        ipan = st.kwargs['invalid_protein_as_noncoding']
        cpcs = [x for x in st.calls if x[0] == 'check_protein_coding']
        ok = all(len(x[1]) == 2 and not x[2] and isinstance(x[1][0], SymObj) and x[1][0].cls == 'ProteomeStub' for x in cpcs) and len(cpcs) <= 1
        I.e.prove('C06/load_references/coding-status-checked-against-the-loaded-proteome-at-most-once', ok)
        if ok and cpcs:
            flag = cpcs[0][1][1]
            I.e.prove('C06/load_references/invalid-protein-as-noncoding-reaches-the-check-unchanged',
                      as_bool(I.truth(flag)) == ipan if not isinstance(flag, bool) else z3.BoolVal(flag) == ipan)
        elif ok:
            lp, cpc = st.kwargs['load_proteome'], st.kwargs['check_protein_coding']
            I.e.prove('C06/load_references/no-check-only-without-the-flag-from-an-index-or-when-no-proteome-is-read',
                      z3.And(z3.Not(ipan), z3.Or(st.use_index, z3.Not(z3.Or(lp, st.lcp, cpc)))))

    def post_raise(self, I, st, exc):
        I.e.prove('C10/O6/load_references/no-raise-expected-with-proteome-given', False)


# ----------------------------------------------------------------------------
# Native side
# ----------------------------------------------------------------------------
from pyvc.native import NativeCheck
import random as _random


def _rule_letters(rule):
    s = set('AGM')
    for alt in pyspec.RULES[rule] + (pyspec.RULES['trypsin_exception'] if rule == 'trypsin' else []):
        for spec in alt.values():
            s |= set(spec.strip('^w'))
    return ''.join(sorted(s))


class _FindFirstSite(Contract):
    """the first position at which a node sequence is cut: the smaller of the first cleavage site the site iterator yields for the SAME rule,
    exception and exception sites that were asked for (none -> not considered) and the first stop symbol (a stop at position 0 cuts behind
    it, unless it is the whole sequence); -1 when there is neither. (The peptide graph cleaves nodes with these helpers: with another
    exception than the one asked for, the sites would depend on how a sequence is partitioned into nodes.)"""
    props = ('C10',)
    with_range = False
    path = AAR

    @property
    def qualname(self):
        return 'AminoAcidSeqRecord.find_first_cleave_or_stop_site' + ('_with_range' if self.with_range else '')

    def setup(self, I):
        e = I.e
        st = types.SimpleNamespace(calls=[])
        st.has_site, st.has_stop = e.bool('iterator_yields_a_site'), e.bool('sequence_has_a_stop')
        st.site, st.stop, st.L = e.int('first_site'), e.int('first_stop'), e.int('seq_len')
        e.assume(z3.And(st.L >= 1, st.site >= 1, st.site < st.L, st.stop >= 0, st.stop < st.L))
        st.range = SymObj('SiteRange10')
        st.rule, st.exc, st.esites = SymObj('Rule10f'), SymObj('Exception10f'), SymObj('ExceptionSites10f')
        st.rec = SymObj('AminoAcidSeqRecord', seq=SymObj('Seq10f'))
        st.args = [st.rec]
        st.kwargs = dict(rule=st.rule, exception=st.exc, exception_sites=st.esites)
        self._cur = st
        return st

    @property
    def models(self):
        c = self

        def inst(reg):
            reg.protocol_('Seq10f', '__len__', lambda I, o: c._cur.L)

            class It:
                def __init__(s_, what):
                    s_.what = what

                def sym_next(s_, I, rest):
                    st = c._cur
                    has = st.has_site if s_.what == 'site' else st.has_stop
                    if I.e.branch(has, f'{s_.what} exists'):
                        if s_.what == 'stop':
                            return st.stop
                        return (st.site, st.range) if c.with_range else st.site
                    if rest:
                        return rest[0]
                    I.raise_('StopIteration')

            def sites(I, o, a, k):
                c._cur.calls.append((list(a), dict(k)))
                return It('site')
            reg.method_('AminoAcidSeqRecord', 'iter_enzymatic_cleave_sites_with_range' if c.with_range else 'iter_enzymatic_cleave_sites', sites)
            reg.method_('AminoAcidSeqRecord', 'iter_stop_sites', lambda I, o, a, k: It('stop'))
        return (inst,)

    def post_return(self, I, st, ret):
        e = I.e
        ok = len(st.calls) == 1 and not st.calls[0][0] and st.calls[0][1].get('rule') is st.rule and st.calls[0][1].get('exception') is st.exc \
            and st.calls[0][1].get('exception_sites') is st.esites
        e.prove('C10/first-site/sites-asked-for-with-the-given-rule-exception-and-exception-sites', ok)
        pos = ret[0] if self.with_range and isinstance(ret, tuple) else ret
        stop_cut = z3.If(st.stop == 0, 1, st.stop)
        stop_counts = z3.And(st.has_stop, z3.Not(z3.And(st.stop == 0, st.L == 1)))
        early = z3.And(st.has_stop, st.stop == 0, st.L == 1)
        want = z3.If(early, -1, z3.If(z3.And(st.has_site, stop_counts), z3.If(st.site <= stop_cut, st.site, stop_cut),
                                     z3.If(st.has_site, st.site, z3.If(stop_counts, stop_cut, -1))))
        e.prove('C10/first-site/the-smaller-of-the-first-cleavage-site-and-the-first-stop-or-minus-one', pos == want)
        if self.with_range and isinstance(ret, tuple):
            rng = ret[1]
            e.prove('C10/first-site/range-of-the-site-returned-none-for-a-stop', z3.If(z3.And(z3.Not(early), st.has_site, z3.Or(z3.Not(stop_counts), st.site <= stop_cut)),
                                                                                     z3.BoolVal(rng is st.range), z3.BoolVal(rng is None)))


for _wr in (False, True):
    register(type(f'FindFirstSite_{"range" if _wr else "plain"}', (_FindFirstSite,), dict(with_range=_wr)))


class NativeDigest(NativeCheck):
    name = 'digest'
    props = ('C10',)
    functions = (f'{AAR}:AminoAcidSeqRecord.iter_enzymatic_cleave_sites', f'{AAR}:AminoAcidSeqRecord.enzymatic_cleave',
                 'lemma:expasy_rule_semantics', 'lemma:site_range_pairing')
    bounded_for = 'enzymatic_cleave (miscleavage loops, N-terminal M removal, limits) equals the digest spec; site/range pairing at run time'
    bound = ('all 36 rules; random strings of length 0-24 over the rule-relevant residues + A,G,M,*,X; miscleavage 0-3, cds_start_nf both; '
             'quick 40 strings per rule, thorough 600')
    quick_budget_s = 60
    thorough_budget_s = 400

    def cases(self, rng, tier):
        n = 600 if tier == 'thorough' else 40
        for rule in sorted(pyspec.RULES):
            letters = _rule_letters(rule)
            for _ in range(n):
                L = rng.randint(0, 24)
                s = ''.join(rng.choice(letters) for _ in range(L))
                if rng.random() < 0.15 and L:
                    i = rng.randrange(L)
                    s = s[:i] + rng.choice('*X') + s[i + 1:]
                lo = rng.choice([1, 1, 2, 4])
                yield dict(rule=rule, seq=s, misc=rng.randint(0, 3), nf=rng.random() < 0.5,
                           exc=('trypsin_exception' if rule == 'trypsin' and rng.random() < 0.7 else None),
                           min_length=lo, max_length=rng.choice([lo + 1, lo + 3, 6, 100]))

    def from_model(self, model):
        cells = {}
        for k, v in model.items():
            if k.startswith('c_'):
                try:
                    off = int(k[3:]) * (-1 if k[2] == 'm' else 1)
                    cells[off] = int(v)
                except ValueError:
                    pass
        if not cells:
            return None
        s = ''.join(rewin.ALPHABET[cells[i]] for i in sorted(cells) if cells[i] < rewin.ABSENT)
        return dict(rule=None, seq=s, misc=2, nf=False, exc=None)

    def check(self, inp):
        from moPepGen.aa import AminoAcidSeqRecord
        from Bio.Seq import Seq
        rules = [inp['rule']] if inp['rule'] else sorted(pyspec.RULES)
        s = inp['seq']
        for rule in rules:
            rec = AminoAcidSeqRecord(Seq(s))
            got = list(rec.iter_enzymatic_cleave_sites(rule, inp['exc']))
            exp = pyspec.cleave_sites(s, rule, inp['exc'])
            if got != exp:
                return dict(call=f'iter_enzymatic_cleave_sites({rule!r}, {inp["exc"]!r}) on {s!r}', observed=got, expected=exp)
            if rule != 'trypsin_exception':
                try:
                    pairs = list(rec.iter_enzymatic_cleave_sites_with_range(rule, inp['exc']))
                except ValueError as ex:
                    return dict(call=f'iter_enzymatic_cleave_sites_with_range({rule!r}) on {s!r}', observed=str(ex)[:200], expected='sites pair with ranges')
                if [p[0] for p in pairs] != exp or any(not (r[0] < site <= r[1]) for site, r in pairs):
                    return dict(call=f'iter_enzymatic_cleave_sites_with_range({rule!r}) on {s!r}', observed=pairs, expected=exp)
            if 'X' in s or '*' in s:
                continue
            try:
                lo, hi = inp.get('min_length', 1), inp.get('max_length', 100)
                peps = rec.enzymatic_cleave(rule, inp['exc'], miscleavage=inp['misc'], min_mw=0., min_length=lo, max_length=hi, cds_start_nf=inp['nf'])
            except ValueError:
                continue
            got2 = {str(p.seq) for p in peps}
            exp2 = {p for p in pyspec.digest(s, rule, inp['exc'], inp['misc'], cds_start_nf=inp['nf'], filt=False)
                    if lo <= len(p) <= hi and pyspec.mol_weight(p) > 0}
            if got2 != exp2:
                return dict(call=f'enzymatic_cleave({rule!r}, misc={inp["misc"]}, nf={inp["nf"]}) on {s!r}',
                            observed=sorted(got2 ^ exp2)[:6], expected='equal to digest spec')
        return None

    def nontrivial(self, inp):
        return (inp['rule'], inp['seq']) if len(inp['seq']) >= 3 else None


class NativePool(NativeCheck):
    name = 'canonical_pool'
    props = ('C10', 'C12')
    functions = (f'{GI}:generate_index', f'{UI}:update_index', f'{CM}:load_references', 'moPepGen/aa/AminoAcidSeqDict.py:AminoAcidSeqDict.create_unique_peptide_pool')
    bounded_for = 'create_unique_peptide_pool = digest spec of every protein (+ I->L images); pools built by generateIndex / on the fly for the CLI parameters'
    bound = ('random proteomes: 1-4 proteins of length 5-60 over KRPMWCDILAG with leading X / internal * / cds_start_NF; trypsin(+exception), lysc, asp-n; '
             'plus the demo proteome through generate_index + load_canonical_peptides and through load_references (raw files) with exception auto / explicit / None')
    quick_budget_s = 90
    thorough_budget_s = 400

    def cases(self, rng, tier):
        for exc in ('auto', 'trypsin_exception', None):
            yield dict(kind='index', exception=exc)
            yield dict(kind='raw', exception=exc)
        for _ in range(300 if tier == 'thorough' else 40):
            prots = {}
            for t in range(rng.randint(1, 4)):
                L = rng.randint(5, 60)
                s = ''.join(rng.choice('KRPMWCDILAGKR') for _ in range(L))
                if rng.random() < 0.3:
                    s = 'X' * rng.randint(1, 2) + s
                if rng.random() < 0.6:
                    s = 'M' + s
                if rng.random() < 0.3:
                    i = rng.randrange(len(s))
                    s = s[:i] + '*' + s[i:]
                prots[f'T{t}'] = s
            rule, exc = rng.choice([('trypsin', 'trypsin_exception'), ('trypsin', None), ('lysc', None), ('asp-n', None)])
            yield dict(kind='random', proteins=prots, rule=rule, exception=exc, misc=rng.randint(0, 2),
                       nf=[t for t in prots if rng.random() < 0.4], not_in_gtf=[t for t in prots if rng.random() < 0.3],
                       min_length=rng.choice([1, 5, 7]), max_length=rng.choice([15, 25]))

    def check(self, inp):
        from . import cv_run, realobj
        if inp['kind'] == 'random':
            from moPepGen import aa
            from Bio.Seq import Seq
            proteome = aa.AminoAcidSeqDict()
            for t, s in inp['proteins'].items():
                proteome[t] = aa.AminoAcidSeqRecord(Seq(s), _id=t, transcript_id=t, protein_id='P' + t, gene_id='G' + t)
            absent = set(inp.get('not_in_gtf', []))
            anno = realobj.anno_from(
                [dict(id='G' + t, start=0, end=400, strand=1, transcripts=[t]) for t in inp['proteins'] if t not in absent],
                [dict(id=t, gene='G' + t, strand=1, exons=[(0, 400)], tags=(['cds_start_NF'] if t in inp['nf'] else []))
                 for t in inp['proteins'] if t not in absent])
            got = proteome.create_unique_peptide_pool(anno, inp['rule'], inp['exception'], inp['misc'], 500., inp['min_length'], inp['max_length'])
            exp = pyspec.canonical_pool(inp['proteins'], inp['rule'], inp['exception'], inp['misc'], 500., inp['min_length'], inp['max_length'],
                                        cds_start_nf=set(inp['nf']) - absent)
            if set(got) != exp:
                return dict(observed=dict(missing=sorted(exp - set(got))[:5], extra=sorted(set(got) - exp)[:5]), expected='pool = digest spec')
            return None
        anno, genome, proteome = cv_run.demo_reference()
        nf = {t for t in proteome if t in anno.transcripts and anno.transcripts[t].is_cds_start_nf()}
        resolved = pyspec.resolve_exception('trypsin', inp['exception'])
        exp = pyspec.canonical_pool({t: str(p.seq) for t, p in proteome.items()}, 'trypsin', resolved, 2, cds_start_nf=nf)
        import tempfile, shutil
        from pathlib import Path
        from moPepGen import cli, params
        tmp = tempfile.mkdtemp(prefix='pyvc_c10_')
        try:
            cp = params.CleavageParams(enzyme='trypsin', exception=inp['exception'], miscleavage=2, min_mw=500., min_length=7, max_length=25)
            if inp['kind'] == 'index':
                a = cv_run.base_args(command='generateIndex', output_dir=Path(tmp) / 'index', force=False, gtf_symlink=False,
                                     cleavage_exception=inp['exception'])
                cli.generate_index(a)
                from moPepGen.index import IndexDir
                got = IndexDir(Path(tmp) / 'index').load_canonical_peptides(cp)
            else:
                from moPepGen.cli import common
                a = cv_run.base_args(cleavage_exception=inp['exception'])
                got = common.load_references(a, load_genome=False, cleavage_params=cp)[3]
        finally:
            shutil.rmtree(tmp, ignore_errors=True)
        if set(got) != exp:
            return dict(observed=dict(n=len(got), missing=sorted(exp - set(got))[:5], extra=sorted(set(got) - exp)[:5]),
                        expected=f'digest of the proteome with rule trypsin and exception {resolved!r} (n={len(exp)})')
        return None


NATIVE = [NativeDigest(), NativePool()]


# ----------------------------------------------------------------------------
# O5: create_unique_peptide_pool — per-protein preparation, cds_start_nf flow, I->L images
# ----------------------------------------------------------------------------
AAD = 'moPepGen/aa/AminoAcidSeqDict.py'


class ProtSeq:
    """sequence of proteome entry k after a list of preparation steps"""
    def __init__(self, st, k, ops=()):
        self.st, self.k, self.ops = st, k, tuple(ops)

    def sym_method(self, I, name, a, k):
        st = self.st
        if name == 'startswith' and a == ['X']:
            return st.startsX(self.k) if not self.ops else z3.BoolVal(False) if 'lstripX' in self.ops else I.e.bool('startsX_later')
        if name == 'lstrip' and a == ['X']:
            return ProtSeq(st, self.k, self.ops + ('lstripX',))
        if name == 'find' and a == ['*']:
            f = st.stop_after_strip if 'lstripX' in self.ops else st.stop_raw
            return f(self.k) if not any(isinstance(o, tuple) for o in self.ops) else z3.IntVal(-1)
        if name == 'split' and a == ['X']:
            return [ProtSeq(st, self.k, self.ops + ('beforeX',))]
        raise Unsupported(f'protein.seq.{name}{a}')


@register
class UniquePeptidePool(Contract):
    path, qualname, props = AAD, 'AminoAcidSeqDict.create_unique_peptide_pool', ('C10', 'C04')
    assumptions = ('modular: AminoAcidSeqRecord.enzymatic_cleave is used through a stub (its result is compared with the digest spec by the bounded check `digest`)',
                   'assumed: iter(self.values()) / next(it, None) enumerate the proteome entries once, in order')

    def setup(self, I):
        e = I.e
        st = types.SimpleNamespace()
        st.N = e.int('N')
        e.assume(st.N >= 0)
        st.startsX = z3.Function('starts_with_X', I_, B_)
        st.stop_raw = z3.Function('first_stop_raw', I_, I_)
        st.stop_after_strip = z3.Function('first_stop_after_strip', I_, I_)
        st.inanno = z3.Function('tx_in_annotation', I_, B_)
        st.nf = z3.Function('is_cds_start_nf', I_, B_)
        st.par = dict(rule=SymStr(z3.Const('rule', e.StrSort)), exception=SymStr(z3.Const('exception', e.StrSort)),
                      miscleavage=e.int('miscleavage'), min_mw=e.real('min_mw'), min_length=e.int('min_length'), max_length=e.int('max_length'))
        st.cache = {}
        def prot_at(k):
            kz = k if is_z3(k) else z3.IntVal(k)
            key = z3.simplify(kz).sexpr()
            if key not in st.cache:
                st.cache[key] = SymObj('AminoAcidSeqRecord', transcript_id=SymObj('TxId', idx=kz), seq=ProtSeq(st, kz), k=kz)
            return st.cache[key]
        st.prot_at = prot_at
        st.values = FnView(st.N, prot_at, tag='proteome')
        st.self = SymObj('AminoAcidSeqDict')
        tx = SymObj('TxMap')
        st.anno = SymObj('AnnoStubP', transcripts=tx)
        st.adds = []
        st.cleaves = []
        st.args = [st.self]
        st.kwargs = dict(anno=st.anno, **st.par)
        self._cur = st
        return st

    @property
    def models(self):
        return (self.install_models,)

    def install_models(self, reg):
        c = self
        reg.method_('AminoAcidSeqDict', 'values', lambda I, o, a, k: c._cur.values)

        class Iter:
            def __init__(s):
                s.pos = z3.IntVal(0)
            def sym_next(s, I, rest):
                st = c._cur
                if I.e.branch(s.pos < st.N, 'more proteins'):
                    v = st.prot_at(s.pos)
                    s.pos = s.pos + 1
                    return v
                return rest[0] if rest else I.raise_('StopIteration')
        reg.iter_hooks.append(lambda I, v: (setattr(c._cur, 'it', Iter()) or c._cur.it) if v is c._cur.values else None)
        reg.protocol_('TxMap', '__contains__', lambda I, o, item: c._cur.inanno(item.fields['idx']))
        reg.protocol_('TxMap', '__getitem__', lambda I, o, key: SymObj('TxModelP', k=key.fields['idx']))
        reg.method_('TxModelP', 'is_cds_start_nf', lambda I, o, a, k: c._cur.nf(o.fields['k']))

        def getslice(I, o, lo, hi):
            if lo is not None:
                raise Unsupported('protein[lo:hi]')
            return SymObj('AminoAcidSeqRecord', transcript_id=o.fields['transcript_id'],
                          seq=ProtSeq(c._cur, o.fields['k'], o.fields['seq'].ops + (('cut', hi),)), k=o.fields['k'])
        reg.protocol_('AminoAcidSeqRecord', '__getslice__', getslice)

        def cleave(I, o, a, k):
            st = c._cur
            st.cleaves.append((o, dict(k)))
            e = I.e
            pk = st.cur_pos
            e.prove('C10/O5/digests-the-current-proteome-entry', z3.simplify(o.fields['k'] == pk))
            for name in ('rule', 'exception', 'miscleavage', 'min_mw', 'min_length', 'max_length'):
                e.prove(f'C10/O5/passes-{name}-unchanged', k.get(name) is st.par[name])
            e.prove('C10/O5/cds_start_nf-of-this-transcript-or-False-if-unknown',
                    as_bool(k.get('cds_start_nf')) == z3.If(st.inanno(pk), st.nf(pk), False))
            ops = o.fields['seq'].ops
            if 'beforeX' not in ops:
                e.prove('C10/O5/leading-X-removed', z3.Implies(st.startsX(pk), 'lstripX' in ops))
                stop = st.stop_after_strip(pk) if 'lstripX' in ops else st.stop_raw(pk)
                cuts = [o_ for o_ in ops if isinstance(o_, tuple)]
                e.prove('C10/O5/cut-at-the-first-stop', z3.If(stop > -1, len(cuts) == 1 and z3.simplify(cuts[0][1] == stop) if cuts else False, len(cuts) == 0))
            ch = e.choose(3, 'cleave outcome')
            if ch == 1:
                raise PyRaise(SymExc('ValueError', ["'X' is not a valid unambiguous letter for protein"]))
            if ch == 2:
                raise PyRaise(SymExc('ValueError', ['something else']))
            n = e.int('n_peptides')
            e.assume(n >= 0)
            return FnView(n, lambda i: SymObj('PepRec', seq=SymObj('PepSeq', i=i if is_z3(i) else z3.IntVal(i))), tag='peptides')
        reg.method_('AminoAcidSeqRecord', 'enzymatic_cleave', cleave)
        reg.str_hooks.append(lambda v: (lambda I, v: PepStr(v)) if isinstance(v, SymObj) and v.cls == 'PepSeq' else None)

    def main_havoc(self, I, env, k):
        st = self._cur
        e = I.e
        pos = e.int('pos')
        e.assume(z3.And(0 <= pos, pos <= st.N))
        st.cur_pos = pos
        class Pool:
            def sym_method(s_, I2, name, a, kw):
                if name == 'add':
                    st.adds.append(a[0])
                    return None
                raise Unsupported(name)
        env['pool'] = Pool()
        if e.branch(pos < st.N, 'a protein is pending'):
            p = st.prot_at(pos)
            # at an arbitrary iteration the entry may already have been shortened by the X-retry path
            if e.branch(e.bool('retried'), 'retry after X'):
                p.fields['seq'] = ProtSeq(st, pos, ('beforeX',))
            else:
                p.fields['seq'] = ProtSeq(st, pos)
            env['protein'] = p
            st.it.pos = pos + 1
        else:
            env['protein'] = None
            st.it.pos = pos

    def main_on_head(self, I, env, k):
        self._cur.c0 = len(self._cur.cleaves)

    def main_step(self, I, env, k):
        st = self._cur
        return [('each-pending-protein-is-digested-or-retried', len(st.cleaves) - st.c0 == 1)]

    def pep_on_head(self, I, env, k):
        self._cur.a0 = len(self._cur.adds)

    def pep_step(self, I, env, k):
        st = self._cur
        new = st.adds[st.a0:]
        ok = len(new) == 2 and isinstance(new[0], PepStr) and z3.is_true(z3.simplify(new[0].v.fields['i'] == k)) \
            and isinstance(new[1], Replaced) and new[1].of.v is new[0].v and (new[1].a, new[1].b) == ('I', 'L')
        return [('pool-gets-the-peptide-and-its-I-to-L-image', ok)]

    @property
    def loops(self):
        T = lambda I, env, k: []
        return {0: LoopSpec(inv=T, havoc=self.main_havoc, on_head=self.main_on_head, step=self.main_step),
                1: LoopSpec(inv=T, on_head=self.pep_on_head, step=self.pep_step)}

    def post_raise(self, I, st, exc):
        I.e.prove('C10/O5/only-a-foreign-ValueError-of-the-digest-propagates', exc.cls == 'ValueError' and exc.msg == 'something else')


class PepStr:
    def __init__(self, v):
        self.v = v

    def sym_method(self, I, name, a, k):
        if name == 'replace':
            return Replaced(self, a[0], a[1])
        raise Unsupported(f'str.{name}')


class Replaced:
    def __init__(self, of, a, b):
        self.of, self.a, self.b = of, a, b


# ----------------------------------------------------------------------------
# O4: enzymatic_cleave — the miscleavage double loop, N-terminal M removal, limits
# ----------------------------------------------------------------------------
from pyvc.symlist import SymList


class SubSeqObj:
    """self.seq[lo:hi] of the protein (half-open), known through predicates of (lo, hi)"""
    def __init__(self, st, lo, hi):
        self.st, self.lo, self.hi = st, lo, hi

    def sym_len(self, I):
        return self.hi - self.lo

    def sym_contains(self, I, item):
        if item == 'X':
            return self.st.hasX(self.lo, self.hi)
        raise Unsupported(f'{item!r} in peptide')

    def sym_method(self, I, name, a, k):
        if name == 'startswith' and a == ['M']:
            return z3.And(self.hi > self.lo, self.st.isM(self.lo))
        raise Unsupported(f'seq.{name}')


@register
class EnzymaticCleave(Contract):
    path, qualname, props = AAR, 'AminoAcidSeqRecord.enzymatic_cleave', ('C10', 'C05', 'C04')
    assumptions = ('modular: find_all_enzymatic_cleave_sites returns the ascending site list of iter_enzymatic_cleave_sites (IterSites), sites in [1, len]',
                   'assumed: self[a:b] is the sub-record of residues a..b-1; Bio molecular_weight is a function of the sub-sequence')

    def setup(self, I):
        e = I.e
        st = types.SimpleNamespace()
        st.L = e.int('L')
        st.m = e.int('n_sites')
        st.site = z3.Array('site', I_, I_)
        j, j2 = z3.Ints('sj sj2')
        e.assume(z3.And(st.L >= 0, st.m >= 0))
        e.assume(z3.ForAll([j], z3.Implies(z3.And(0 <= j, j < st.m), z3.And(1 <= st.site[j], st.site[j] <= st.L))))
        e.assume(z3.ForAll([j, j2], z3.Implies(z3.And(0 <= j, j < j2, j2 < st.m), st.site[j] < st.site[j2])))
        st.hasX = z3.Function('has_X', I_, I_, B_)
        st.isM = z3.Function('is_M', I_, B_)
        st.mw = z3.Function('mol_weight', I_, I_, z3.RealSort())
        st.misc, st.min_mw = e.int('miscleavage'), e.real('min_mw')
        st.min_len, st.max_len = e.int('min_length'), e.int('max_length')
        st.nf = e.bool('cds_start_nf')
        st.self = SymObj('AminoAcidSeqRecord', seq=SubSeqObj(st, z3.IntVal(0), st.L), whole=True, lo=z3.IntVal(0), hi=st.L)
        st.calls = []          # ghost: (lo, hi) of every update_peptides call, in order
        st.kept = []
        st.vis = z3.Function('vis0', I_, I_, B_)
        x, y = z3.Ints('vx vy')
        e.assume(z3.ForAll([x, y], z3.Not(st.vis(x, y))))
        st.args = [st.self]
        st.kwargs = dict(rule='RULE', exception=None, miscleavage=st.misc, min_mw=st.min_mw, min_length=st.min_len,
                         max_length=st.max_len, cds_start_nf=st.nf)
        st.env = None
        self._cur = st
        return st

    # S = [0] + sites + [L];  n = m + 2
    def S(self, a):
        st = self._cur
        return z3.If(a == 0, 0, z3.If(a == st.m + 1, st.L, st.site[a - 1]))

    def target(self, a, b):
        st = self._cur
        return z3.And(0 <= a, a < b, b <= st.m + 1, b - a - 1 <= st.misc)

    @property
    def models(self):
        return (self.install_models,)

    def install_models(self, reg):
        c = self
        reg.protocol_('AminoAcidSeqRecord', '__len__', lambda I, o: o.fields['hi'] - o.fields['lo'])
        reg.method_('AminoAcidSeqRecord', 'find_all_enzymatic_cleave_sites',
                    lambda I, o, a, k: FnView(c._cur.m, lambda i: c._cur.site[i if is_z3(i) else z3.IntVal(i)], tag='sites'))

        def getslice(I, o, lo, hi):
            st = c._cur
            n = o.fields['hi'] - o.fields['lo']
            a, b = I.clip_slice(lo, hi, n)
            nlo = o.fields['lo'] + a
            nhi = z3.If(o.fields['lo'] + b >= nlo, o.fields['lo'] + b, nlo)
            return SymObj('AminoAcidSeqRecord', seq=SubSeqObj(st, nlo, nhi), lo=nlo, hi=nhi, whole=False)
        reg.protocol_('AminoAcidSeqRecord', '__getslice__', getslice)

        def mol_weight(I, a, k):
            s = a[0]
            return c._cur.mw(s.lo, s.hi)
        reg.ext_('Bio.SeqUtils.molecular_weight', mol_weight)
        reg.ext_('SeqUtils.molecular_weight', mol_weight)

        def update_hook(I, closure, a, k):
            st = c._cur
            pep = a[0]
            lo, hi = pep.fields['lo'], pep.fields['hi']
            st.calls.append((lo, hi))
            plist = closure.env.lookup('peptides')
            n0 = plist.length if isinstance(plist, SymList) else len(plist)
            I.call_closure(closure, a, k)
            plist = closure.env.lookup('peptides')
            n1 = plist.length if isinstance(plist, SymList) else len(plist)
            keep = z3.And(z3.Not(st.hasX(lo, hi)), st.mw(lo, hi) > st.min_mw, hi - lo >= st.min_len, hi - lo <= st.max_len)
            I.e.prove('C10/O4/kept-iff-no-X-and-mass-above-minimum-and-length-in-range', z3.If(keep, n1 == n0 + 1, n1 == n0))
            return None
        reg._closures['update_peptides'] = update_hook

    # ---- loops: 0 outer (start), 1 inner (end)
    def sites_ok(self, env):
        st = self._cur
        s = env['sites']
        j = z3.Int('qj')
        return [('sites=[0]+sites+[len]', z3.And(s.length == st.m + 2,
                 z3.ForAll([j], z3.Implies(z3.And(0 <= j, j <= st.m + 1), s.arr[j] == self.S(j)))))]

    def outer_inv(self, I, env, k):
        st = self._cur
        x, y = z3.Ints('ox oy')
        return self.sites_ok(env) + [
            ('start-in-range', z3.And(0 <= env['start'], env['start'] <= st.m + 1)),
            ('visited=all-pairs-with-earlier-start',
             z3.ForAll([x, y], st.vis(x, y) == z3.And(self.target(x, y), x < env['start'])))]

    def inner_inv(self, I, env, k):
        st = self._cur
        x, y = z3.Ints('ix iy')
        a, b = env['start'], env['end']
        return self.sites_ok(env) + [
            ('end-in-range', z3.And(a < b, b <= st.m + 2, 0 <= a, a <= st.m)),
            ('visited=earlier-starts-plus-this-start-up-to-end',
             z3.ForAll([x, y], st.vis(x, y) == z3.Or(z3.And(self.target(x, y), x < a),
                                                      z3.And(x == a, a < y, y < b, self.target(x, y)))))]

    def havoc(self, I, env, k):
        st = self._cur
        st.vis = z3.Function(I.e.fresh_name('vis'), I_, I_, B_)
        env['peptides'] = SymList(I, 'peptides', unwrap=lambda v: I.e.int('pep_id'))
        if not isinstance(env['sites'], SymList):
            raise Unsupported('sites is not a list of symbolic length')
        env['sites'] = env['sites'].sym_havoc(I, 'sites')

    def inner_on_head(self, I, env, k):
        st = self._cur
        st.c0 = len(st.calls)
        st.env = env

    def inner_step(self, I, env, k):
        st = self._cur
        a, b = env['start'], env['end'] - 1      # `end += 1` already executed
        new = st.calls[st.c0:]
        lo, hi = self.S(a), self.S(b)
        full = len(new) >= 1 and z3.simplify(z3.And(new[-1][0] == lo, new[-1][1] == hi))
        trimmed = z3.And(a == 0, z3.Not(st.nf), hi > lo, st.isM(lo))
        out = [('the-product-S[start]:S[end]-is-offered', full),
               ('pair-is-within-the-miscleavage-limit', self.target(a, b))]
        if len(new) == 2:
            out.append(('M-removed-form-offered-only-for-a-complete-N-terminus-starting-with-M', trimmed))
            out.append(('M-removed-form-is-the-product-without-its-first-residue',
                        z3.simplify(z3.And(new[0][0] == lo + 1, new[0][1] == hi))))
        else:
            out.append(('M-removed-form-offered-whenever-the-N-terminal-product-starts-with-M', z3.And(len(new) == 1, z3.Not(trimmed))))
        # ghost update of the visited relation
        old = st.vis
        nv = z3.Function(I.e.fresh_name('vis'), I_, I_, B_)
        x, y = z3.Ints('gx gy')
        I.e.assume(z3.ForAll([x, y], nv(x, y) == z3.Or(old(x, y), z3.And(x == a, y == b))))
        st.vis = nv
        return out

    @property
    def loops(self):
        return {0: LoopSpec(inv=self.outer_inv, havoc=self.havoc),
                1: LoopSpec(inv=self.inner_inv, havoc=self.havoc, on_head=self.inner_on_head, step=self.inner_step)}

    def post_return(self, I, st, ret):
        x, y = z3.Ints('px py')
        I.e.prove('C10/O4/every-pair-of-cut-points-within-the-miscleavage-limit-is-digested-exactly-those',
                  z3.ForAll([x, y], st.vis(x, y) == self.target(x, y)))


# ----------------------------------------------------------------------------
# the list-returning site helpers (used by the peptide graph and by decoyFasta): the sites are asked for with the arguments given
# ----------------------------------------------------------------------------
class _FindAllForward(Contract):
    """the list-returning site helpers ask the site iterator exactly once, for the SAME rule, exception (and exception sites) that were given - with
    another exception than the one asked for the sites would differ from those of the ExPASy rule under the chosen exception. (What is done with the
    sites - union with the stop boundaries, ordering - is covered by the bounded digest oracle, not by this contract.)"""
    props = ('C10',)
    path = AAR
    fn = 'find_all_enzymatic_cleave_sites'
    with_range = False
    has_sites_arg = False

    @property
    def qualname(self):
        return 'AminoAcidSeqRecord.' + self.fn

    def setup(self, I):
        st = types.SimpleNamespace(calls=[])
        st.rule, st.exc, st.esites = SymObj('Rule10g'), SymObj('Exception10g'), SymObj('ExceptionSites10g')
        st.rec = SymObj('AminoAcidSeqRecord', seq=SymObj('Seq10g'))
        st.args = [st.rec]
        st.kwargs = dict(rule=st.rule, exception=st.exc)
        if self.has_sites_arg:
            st.kwargs['exception_sites'] = st.esites
        self._cur = st
        return st

    @property
    def models(self):
        c = self

        def inst(reg):
            reg.protocol_('Seq10g', '__len__', lambda I, o: I.e.int('seq_len'))

            def sites(which):
                def f(I, o, a, k):
                    c._cur.calls.append((which, list(a), dict(k)))
                    return []
                return f
            reg.method_('AminoAcidSeqRecord', 'iter_enzymatic_cleave_sites_with_range', sites('range'))
            reg.method_('AminoAcidSeqRecord', 'iter_enzymatic_cleave_sites', sites('plain'))
            reg.method_('AminoAcidSeqRecord', 'iter_stop_sites', lambda I, o, a, k: [])
        return (inst,)

    def post_return(self, I, st, ret):
        ok = len(st.calls) == 1 and st.calls[0][0] == ('range' if self.with_range else 'plain')
        if ok:
            _, a, k = st.calls[0]
            names = ['rule', 'exception', 'exception_sites']
            got = dict(zip(names, a))
            got.update(k)
            ok = got.get('rule') is st.rule and got.get('exception') is st.exc and (got.get('exception_sites') is st.esites if self.has_sites_arg else got.get('exception_sites') is None)
        I.e.prove('C10/all-sites/sites-asked-for-once-with-the-given-rule-exception-and-exception-sites', z3.BoolVal(bool(ok)))


for _fn, _wr, _hs in (('find_all_enzymatic_cleave_sites', False, False), ('find_all_enzymatic_cleave_sites_with_ranges', True, False),
                      ('find_all_cleave_and_stop_sites', False, True), ('find_all_cleave_and_stop_sites_with_range', True, True)):
    register(type(f'FindAllForward_{_fn}', (_FindAllForward,), dict(fn=_fn, with_range=_wr, has_sites_arg=_hs, __doc__=_FindAllForward.__doc__,
                  props=('C10', 'C20') if _fn == 'find_all_enzymatic_cleave_sites' else ('C10',))))      # C20: decoyFasta keeps these positions
