"""C17 — parseCIRCexplorer records denote the reported circular RNA (DESIGN.md §3 C17)."""
from __future__ import annotations
import types
import z3
from pyvc.contract import Contract, Lemma, register, induction
from pyvc.core import Unsupported, as_bool
from pyvc.interp import LoopSpec, PyRaise
from pyvc.values import *
from pyvc.pstr import PStr, cmpl
from .lib import *
from .c11 import mk_gene_tagged, mk_tx_tagged, g2gene_val, gene2g_val, find_gene

GA = 'moPepGen/gtf/GenomicAnnotation.py'
CEP = 'moPepGen/parser/CIRCexplorerParser.py'
CRC = 'moPepGen/circ/CircRNA.py'
CLI = 'moPepGen/cli/parse_circexplorer.py'
I_, B_ = z3.IntSort(), z3.BoolSort()


def mk_world(I, gene_id='ENSG_G', tx_id='ENST_T'):
    """one gene with one (arbitrary, well-formed) transcript on the gene's strand, inside the gene"""
    e = I.e
    gn = mk_gene_tagged(I, gene_id=gene_id)
    h = mk_tx_tagged(I, tx_id=tx_id, gene_id=gene_id, strand=gn.strand)
    gn.obj.fields['transcripts'] = [tx_id]
    gn.obj.fields['attributes']['gene_name'] = 'SYMBOL'
    h.obj.fields['transcript'].fields['attributes']['gene_name'] = 'SYMBOL'
    anno = mk_anno(I, genes=[gn], txs=[h])
    for a in h.axioms + [strand_pm(gn.strand), gn.start <= h.s[0], h.e[h.n - 1] <= gn.end, gn.start >= 0]:
        e.assume(a)
    return gn, h, anno


def mk_feature(I, start, end, strand, seqname, chrom='ENST_T', typ='exon'):
    loc = SymObj('FeatureLocation', start=start, end=end, strand=strand, seqname=seqname,
                 reading_frame_index=None, start_offset=0, end_offset=0, ref=None, ref_db=None)
    return SymObj('SeqFeature', location=loc, chrom=chrom, attributes={}, type=typ, id='<unknown id>', qualifiers={})


def exon_is(h, k, a, b):
    return z3.And(0 <= k, k < h.n, h.s[k] == a, h.e[k] == b)


def no_exon_is(h, a, b, nm='q_ne'):
    j = z3.Int(f'{h.name}_{nm}')
    return z3.ForAll([j], z3.Implies(z3.And(0 <= j, j < h.n), z3.Not(z3.And(h.s[j] == a, h.e[j] == b))))


def gene_interval_to_genomic(gn, a, b):
    """genomic [lo, hi) of the gene-coordinate interval [a, b)"""
    lo = z3.If(gn.strand == 1, gn.start + a, gn.end - b)
    return lo, lo + (b - a)


@register
class FindExonIndex(Contract):
    path, qualname, props = GA, 'GenomicAnnotation.find_exon_index', ('C17',)
    declared_raises = ['ExonNotFoundError']
    models = (install_exon_identity,)
    uses_lemmas = ('cum_monotone',)
    assumptions = ('assumed: the transcript lies inside its gene and on the gene\'s strand; exons sorted, disjoint, non-adjacent',)

    def setup(self, I):
        e = I.e
        gn, h, anno = mk_world(I)
        a, b = e.int('frag_start'), e.int('frag_end')
        e.assume(z3.And(0 <= a, a < b, b <= gn.end - gn.start))
        feat = mk_feature(I, a, b, gn.strand, gn.id)
        self._cur = types.SimpleNamespace(args=[anno, 'ENST_T', feat], gn=gn, h=h, a=a, b=b)
        return self._cur

    def inv_fwd(self, I, env, k):
        st = self._cur
        lo, hi = gene_interval_to_genomic(st.gn, st.a, st.b)
        j = z3.Int('j_fe')
        return [('earlier-exons-differ-and-do-not-follow', z3.ForAll([j], z3.Implies(z3.And(0 <= j, j < k),
                 z3.And(z3.Not(z3.And(st.h.s[j] == lo, st.h.e[j] == hi)),
                        z3.Or(st.h.s[j] < lo, z3.And(st.h.s[j] == lo, st.h.e[j] < hi))))))]

    def inv_bwd(self, I, env, k):
        st = self._cur
        h = st.h
        lo, hi = gene_interval_to_genomic(st.gn, st.a, st.b)
        j = z3.Int('j_fe')
        return [('later-exons-differ-and-do-not-precede', z3.ForAll([j], z3.Implies(z3.And(h.n - k <= j, j < h.n),
                 z3.And(z3.Not(z3.And(h.s[j] == lo, h.e[j] == hi)),
                        z3.Or(h.s[j] > lo, z3.And(h.s[j] == lo, h.e[j] > hi))))))]

    @property
    def loops(self):
        return {0: LoopSpec(inv=self.inv_fwd), 1: LoopSpec(inv=self.inv_bwd)}

    def post_return(self, I, st, ret):
        lo, hi = gene_interval_to_genomic(st.gn, st.a, st.b)
        h = st.h
        k = z3.If(st.gn.strand == 1, ret, h.n - 1 - ret)
        I.e.prove('C17/find_exon_index/return/exon-equals-fragment', exon_is(h, k, lo, hi))

    def post_raise(self, I, st, exc):
        lo, hi = gene_interval_to_genomic(st.gn, st.a, st.b)
        I.e.prove('C17/find_exon_index/raise/no-exon-equals-fragment', no_exon_is(st.h, lo, hi))

    def summary(self, I, args, kwargs):
        anno, tx_id, feat = args[0], args[1], args[2]
        e = I.e
        h = anno.fields['transcripts'][tx_id].tag
        gid = anno.fields['transcripts'][tx_id].fields['transcript'].fields['attributes']['gene_id']
        gn = find_gene(anno, gid)
        loc = feat.fields['location']
        a, b = loc.fields['start'], loc.fields['end']
        e.prove('C17/find_exon_index/call/requires-fragment-inside-gene', z3.And(0 <= a, a < b, b <= gn.end - gn.start))
        lo, hi = gene_interval_to_genomic(gn, a, b)
        if not e.branch(z3.Not(no_exon_is(h, lo, hi, 'q' + e.fresh_name('fe'))), 'find_exon_index:found'):
            I.raise_('ExonNotFoundError', gid, feat)
        ret = e.int('exon_index')
        k = z3.If(gn.strand == 1, ret, h.n - 1 - ret)
        e.assume(exon_is(h, k, lo, hi))
        return ret




def intron_match(h, strand, lo, hi, isr, ier, j):
    """fragment [lo,hi) (genomic) matches the intron between genomic exons j and j+1 within the tolerance
    ranges (offsets measured in transcript direction), or ends before the next exon starts"""
    inr = lambda x, r: z3.And(r[0] <= x, x < r[1] + 1)
    plus = z3.And(inr(lo - h.e[j], isr), z3.Or(inr(hi - h.s[j + 1], ier), h.s[j + 1] >= hi))
    minus = z3.And(inr(-(hi - h.s[j + 1]), isr), z3.Or(inr(-(lo - h.e[j]), ier), h.e[j] <= lo))
    return z3.And(0 <= j, j < h.n - 1, z3.If(strand == 1, plus, minus))


@register
class FindIntronIndex(Contract):
    """Soundness only: a normal return means the fragment matches an annotated intron of the transcript
    within the tolerance ranges. (The returned number is not used by the parser; completeness of the
    scan - the early `break`s - is not claimed.)"""
    path, qualname, props = GA, 'GenomicAnnotation.find_intron_index', ('C17',)
    declared_raises = ['IntronNotFoundError']
    models = (install_exon_identity,)

    def setup(self, I):
        e = I.e
        gn, h, anno = mk_world(I)
        a, b = e.int('frag_start'), e.int('frag_end')
        e.assume(z3.And(0 <= a, a < b, b <= gn.end - gn.start))
        feat = mk_feature(I, a, b, gn.strand, gn.id, typ='intron')
        isr = (e.int('intron_start_lo'), e.int('intron_start_hi'))
        ier = (e.int('intron_end_lo'), e.int('intron_end_hi'))
        e.assume(z3.And(isr[0] <= isr[1], ier[0] <= ier[1]))
        self._cur = types.SimpleNamespace(args=[anno, 'ENST_T', feat], gn=gn, h=h, a=a, b=b, isr=isr, ier=ier,
                                          kwargs=dict(intron_start_range=isr, intron_end_range=ier))
        return self._cur

    def havoc(self, I, env, k):
        c = I.e.int('cursor')
        I.e.assume(z3.And(0 <= c, c <= self._cur.h.n))
        env['it']._cursor = c

    @property
    def loops(self):
        T = lambda I, env, k: []
        return {0: LoopSpec(inv=T, havoc=self.havoc), 1: LoopSpec(inv=T, havoc=self.havoc)}

    def post_return(self, I, st, ret):
        lo, hi = gene_interval_to_genomic(st.gn, st.a, st.b)
        j = z3.Int('j_intron')
        I.e.prove('C17/find_intron_index/return/fragment-matches-an-annotated-intron',
                  z3.Exists([j], intron_match(st.h, st.gn.strand, lo, hi, st.isr, st.ier, j)))

    def post_raise(self, I, st, exc):
        pass

    def summary(self, I, args, kwargs):
        anno, tx_id, feat = args[0], args[1], args[2]
        e = I.e
        h = anno.fields['transcripts'][tx_id].tag
        gid = anno.fields['transcripts'][tx_id].fields['transcript'].fields['attributes']['gene_id']
        gn = find_gene(anno, gid)
        loc = feat.fields['location']
        a, b = loc.fields['start'], loc.fields['end']
        isr, ier = kwargs.get('intron_start_range', (0, 0)), kwargs.get('intron_end_range', (0, 0))
        e.prove('C17/find_intron_index/call/requires-fragment-inside-gene', z3.And(0 <= a, a < b, b <= gn.end - gn.start))
        if e.branch(e.bool('intron_found'), 'find_intron_index:found'):
            j = e.int('intron_j')
            lo, hi = gene_interval_to_genomic(gn, a, b)
            e.assume(intron_match(h, gn.strand, lo, hi, isr, ier, j))
            return e.int('intron_index')
        I.raise_('IntronNotFoundError', gid, feat)


# ----------------------------------------------------------------------------
# CIRCexplorer record -> CircRNAModel
# ----------------------------------------------------------------------------
class Ghost:
    """a list that is only appended to / sorted: every append is reported to the owner"""
    def __init__(self, owner, name):
        self.owner, self.name = owner, name

    def sym_method(self, I, name, args, kwargs):
        if name == 'append':
            self.owner.on_append(I, self.name, args[0])
            return None
        if name == 'sort':
            self.owner._cur.log.append((self.name, 'sort', None))
            return None
        if name == 'extend':
            self.owner._cur.log.append((self.name, 'extend', args[0]))
            return None
        raise Unsupported(f'{self.name}.{name}')


def mk_circ_record(I, st, cls='CIRCexplorer2KnownRecord'):
    e = I.e
    st.S, st.E = e.int('rec_start'), e.int('rec_end')
    st.m = e.int('n_blocks')
    st.sizes, st.offs = e.array('exon_sizes'), e.array('exon_offsets')
    st.read_number = e.int('read_number')
    e.assume(st.S < st.E)
    j = z3.Int('j_blk')
    e.assume(st.m >= 1)
    e.assume(z3.ForAll([j], z3.Implies(z3.And(0 <= j, j < st.m), st.sizes[j] >= 1)))
    sizes = FnView(st.m, lambda i: st.sizes[i if is_z3(i) else z3.IntVal(i)], tag='exon_sizes')
    offs = FnView(st.m, lambda i: st.offs[i if is_z3(i) else z3.IntVal(i)], tag='exon_offsets')
    return SymObj(cls, chrom='chr1', start=st.S, end=st.E, name='circ', score=0.0, strand='+',
                  thick_start=st.S, thick_end=st.S, item_rgb=[0, 0, 0], exon_count=st.m, exon_sizes=sizes,
                  exon_offsets=offs, read_number=st.read_number, circ_type=st.circ_type, gene_name='SYMBOL',
                  isoform_name='ENST_T', index=[0], flank_intron='')


class _ConvertBase(Contract):
    path, qualname = CEP, 'CIRCexplorer2KnownRecord.convert_to_circ_rna'
    declared_raises = ['ValueError', 'ExonNotFoundError', 'IntronNotFoundError']
    models = (install_exon_identity,)
    uses_lemmas = ('cum_monotone',)
    circ_type = 'circRNA'
    assumptions = ('assumed: exon_sizes and exon_offsets have exon_count entries, sizes >= 1 (BED12 blocks)',)

    def setup(self, I):
        e = I.e
        st = types.SimpleNamespace(log=[], appended={})
        st.gn, st.h, anno = mk_world(I)
        st.circ_type = self.circ_type
        rec = mk_circ_record(I, st)
        st.isr = (e.int('intron_start_lo'), e.int('intron_start_hi'))
        st.ier = (e.int('intron_end_lo'), e.int('intron_end_hi'))
        st.args = [rec, anno]
        st.kwargs = dict(intron_start_range=st.isr, intron_end_range=st.ier)
        self._cur = st
        return st

    def block(self, k):
        st = self._cur
        lo = st.S + st.offs[k]
        return lo, lo + st.sizes[k]

    def havoc(self, I, env, k):
        for nm in ('fragments', 'intron', 'fragment_ids'):
            env[nm] = Ghost(self, nm)

    def on_head(self, I, env, k):
        st = self._cur
        st.k = k
        st.before = {n: len(v) for n, v in st.appended.items()}

    def on_append(self, I, name, item):
        st = self._cur
        st.appended.setdefault(name, []).append(item)
        e = I.e
        if name != 'fragments':
            return
        gn, h = st.gn, st.h
        k = st.k
        lo, hi = self.block(k)
        loc = item.fields['location']
        a = z3.If(gn.strand == 1, lo - gn.start, gn.end - hi)
        e.prove('C17/convert/fragment-k=strand-corrected-block-k',
                z3.And(gn.start <= lo, hi <= gn.end, loc.fields['start'] == a, loc.fields['end'] == a + (hi - lo),
                       loc.fields['seqname'] == gn.id, item.fields['chrom'] == 'ENST_T'))
        e.prove('C17/convert/fragment-strand=transcript-strand', as_bool(I.eq(loc.fields['strand'], gn.strand)))
        if self.circ_type == 'circRNA':
            e.prove('C17/convert/fragment-is-an-exon-of-the-transcript',
                    z3.And(item.fields['type'] == 'exon', z3.Not(no_exon_is(h, lo, hi, 'q_app'))))
        else:
            e.prove('C17/convert/fragment-type-intron', item.fields['type'] == 'intron')

    def step(self, I, env, k):
        st = self._cur
        new = {n: len(v) - st.before.get(n, 0) for n, v in st.appended.items()}
        items = [('one-fragment-per-block', new.get('fragments', 0) == 1 and new.get('fragment_ids', 0) == 1)]
        if self.circ_type == 'ciRNA':
            idx = st.appended.get('intron', [None])[-1]
            items.append(('intron-list-gets-the-block-number', new.get('intron', 0) == 1 and z3.is_true(z3.simplify(idx == k))))
        else:
            items.append(('no-intron-entry-for-exon-blocks', new.get('intron', 0) == 0))
        return items

    @property
    def loops(self):
        return {0: LoopSpec(inv=lambda I, env, k: [], havoc=self.havoc, on_head=self.on_head, step=self.step)}

    def post_return(self, I, st, ret):
        e = I.e
        gn = st.gn
        a = z3.If(gn.strand == 1, st.S - gn.start, gn.end - st.E)
        b = a + (st.E - st.S)
        idp = ret.fields['id']
        ok = isinstance(idp, OpaqueStr) and len(idp.parts) == 6 and idp.parts[:3] == ['CIRC-', 'ENST_T', '-'] and idp.parts[4] == ':'
        e.prove('C17/convert/id-encodes-the-back-splice-interval-in-gene-coordinates',
                z3.And(gn.start <= st.S, st.S < st.E, st.E <= gn.end, idp.parts[3] == a, idp.parts[5] == b) if ok else False)
        bs = ret.fields['backsplicing_site']
        e.prove('C17/convert/backsplicing-site', z3.And(bs.fields['start'] == a, bs.fields['end'] == b))
        e.prove('C17/convert/model-fields', z3.And(ret.fields['transcript_id'] == 'ENST_T', ret.fields['gene_id'] == gn.id,
                                                   isinstance(ret.fields['fragments'], Ghost) and ret.fields['fragments'].name == 'fragments',
                                                   isinstance(ret.fields['intron'], Ghost) and ret.fields['intron'].name == 'intron'))

    def post_raise(self, I, st, exc):
        e = I.e
        gn, h = st.gn, st.h
        if exc.cls == 'ExonNotFoundError':
            lo, hi = self.block(st.k)
            e.prove('C17/convert/raise/ExonNotFound-iff-some-block-is-no-exon',
                    z3.And(self.circ_type == 'circRNA', no_exon_is(h, lo, hi, 'q_r')))
        elif exc.cls == 'IntronNotFoundError':
            e.prove('C17/convert/raise/IntronNotFound-only-for-ciRNA', self.circ_type == 'ciRNA')
        else:
            # ValueError: a block (or the back-splice interval) is not inside the gene, or the type is unknown
            k = getattr(st, 'k', None)
            outside_rec = z3.Not(z3.And(gn.start <= st.S, st.S <= st.E - 1, st.E <= gn.end))
            if self.circ_type not in ('circRNA', 'ciRNA'):
                e.prove('C17/convert/raise/unsupported-type', True)
            elif k is None:
                e.prove('C17/convert/raise/ValueError-only-if-outside-gene', outside_rec)
            else:
                lo, hi = self.block(k)
                e.prove('C17/convert/raise/ValueError-only-if-outside-gene',
                        z3.Or(outside_rec, z3.Not(z3.And(gn.start <= lo, hi <= gn.end))))


@register
class ConvertCircRNA(_ConvertBase):
    props = ('C17',)
    circ_type = 'circRNA'


@register
class ConvertCiRNA(_ConvertBase):
    props = ('C17',)
    circ_type = 'ciRNA'

    def name(self):
        return super().name() + '[ciRNA]'


@register
class ConvertOther(_ConvertBase):
    props = ('C17',)
    circ_type = 'other'

    def name(self):
        return super().name() + '[unsupported type]'



# ----------------------------------------------------------------------------
# circular sequence assembly
# ----------------------------------------------------------------------------
def mk_prefix(e, a, b, name='P'):
    """P(k) = total length of the first k intervals"""
    P = z3.Function(e.fresh_name(name), I_, I_)
    j, x, y = z3.Ints(f'{name}_j {name}_x {name}_y')
    ax = [P(0) == 0,
          z3.ForAll([j], z3.Implies(j >= 0, P(j + 1) == P(j) + b[j] - a[j]), patterns=[P(j + 1)])]
    return P, ax


def prefix_monotone(P, m):
    x, y = z3.Ints('P_x P_y')
    return z3.ForAll([x, y], z3.Implies(z3.And(0 <= x, x <= y, y <= m), P(x) <= P(y)),
                     patterns=[z3.MultiPattern(P(x), P(y))])


@register
class PrefixMonotone(Lemma):
    """P(x) <= P(y) for 0 <= x <= y <= m when every interval is non-empty (induction on y)."""
    qualname, props = 'fragment_prefix_sums_monotone', ('C17',)

    def obligations(self, e):
        a, b = z3.Array('La', I_, I_), z3.Array('Lb', I_, I_)
        m, j, x = z3.Ints('Lm Lj Lx')
        P, ax = mk_prefix(e, a, b, 'LP')
        hy = ax + [z3.ForAll([j], z3.Implies(z3.And(0 <= j, j < m), a[j] < b[j]))]
        Py = lambda y: z3.ForAll([x], z3.Implies(z3.And(0 <= x, x <= y), P(x) <= P(y)))
        return induction('monotone', Py, m, hy)


def record_of(seq):
    return SymObj('DNASeqRecordWithCoordinates', seq=seq, locations=[], orf=None, selenocysteine=[],
                  id='<unknown id>', name='<unknown name>', description='<unknown description>')


def install_record_algebra(reg):
    """assumed contracts of DNASeqRecordWithCoordinates.__getitem__(slice) / __add__ / __len__ on the sequence
    content (they delegate to Bio.SeqRecord): slice = str slice, add = concatenation"""
    def getslice(I, o, lo, hi):
        return record_of(o.fields['seq'].sym_getslice(I, lo, hi, None))
    reg.protocol_('DNASeqRecordWithCoordinates', '__getslice__', getslice)
    reg.protocol_('DNASeqRecordWithCoordinates', '__add__', lambda I, a, b: record_of(a.fields['seq'].concat(b.fields['seq'])))
    reg.protocol_('DNASeqRecordWithCoordinates', '__len__', lambda I, o: o.fields['seq'].length())
    reg.protocol_('DNASeqRecordWithCoordinates', '__bool__', lambda I, o: o.fields['seq'].length() != 0)


@register
class CircSequence(Contract):
    path, qualname, props = CRC, 'CircRNAModel.get_circ_rna_sequence', ('C17',)
    uses_lemmas = ('fragment_prefix_sums_monotone',)
    assumptions = ('assumed: sorted() of the fragments returns them ordered by gene start (SeqFeature ordering is by location; '
                   'fragments are non-empty and pairwise disjoint)',
                   'assumed: DNASeqRecordWithCoordinates slicing / + act on the sequence content as str slicing / concatenation '
                   '(Bio.SeqRecord; cross-checked natively incl. the constructor call-back of SeqRecord.__add__)')

    def setup(self, I):
        e = I.e
        st = types.SimpleNamespace()
        st.m = e.int('n_frag')
        st.a, st.b = e.array('fs_sorted'), e.array('fe_sorted')     # fragments in sorted order
        st.L = e.int('gene_len')
        st.G = PStr.sym(e, 'gene', st.L)
        j, j2 = z3.Ints('j_f j_f2')
        e.assume(st.m >= 1)
        e.assume(z3.ForAll([j], z3.Implies(z3.And(0 <= j, j < st.m), z3.And(0 <= st.a[j], st.a[j] < st.b[j], st.b[j] <= st.L))))
        st.P, ax = mk_prefix(e, st.a, st.b)
        for x in ax + [prefix_monotone(st.P, st.m)]:
            e.assume(x)

        def frag(i):
            iz = i if is_z3(i) else z3.IntVal(i)
            return mk_feature(I, st.a[iz], st.b[iz], 1, 'ENSG_G')
        st.sorted_view = FnView(st.m, frag, tag='sorted-fragments')
        st.unsorted = SymObj('FragmentList')
        model = SymObj('CircRNAModel', gene_id='ENSG_G', fragments=st.unsorted, intron=[], id='CIRC', transcript_id='ENST_T',
                       gene_name='SYMBOL', gene_locations=[], genomic_position='', backsplicing_site=None)
        st.args = [model, record_of(st.G)]
        self._cur = st
        return st

    @property
    def models(self):
        c = self

        def sorted_hook(I, items, kw):
            if items is c._cur.unsorted and not kw:
                return c._cur.sorted_view
            return None
        return (install_record_algebra, lambda reg: reg.sorted_hooks.append(sorted_hook))

    def havoc(self, I, env, k):
        st = self._cur
        if I.e.branch(k == 0, 'first iteration'):
            env['circ'] = None
        else:
            st.acc = PStr.sym(I.e, 'circ_acc')
            env['circ'] = record_of(st.acc)

    def inv(self, I, env, k):
        st = self._cur
        circ = env['circ']
        if circ is None:
            return [('circ-is-None-only-before-the-first-fragment', k == 0)]
        seq = circ.fields['seq']
        j, t = z3.Ints('j_inv t_inv')
        return [('k>0', k >= 1), ('length=prefix-sum', seq.length() == st.P(k)),
                ('content=concatenation-of-the-first-k-fragments',
                 z3.ForAll([j, t], z3.Implies(z3.And(0 <= j, j < k, st.P(j) <= t, t < st.P(j + 1)),
                                              seq.get(t) == st.G.get(st.a[j] + t - st.P(j))),
                           patterns=[z3.MultiPattern(seq.get(t), st.P(j))] if hasattr(seq, 'arr') else []))]

    @property
    def loops(self):
        return {0: LoopSpec(inv=self.inv, havoc=self.havoc)}

    def post_return(self, I, st, ret):
        e = I.e
        ok = isinstance(ret, SymObj)
        e.prove('C17/circ-seq/returns-a-record', ok)
        if not ok:
            return
        seq = ret.fields['seq']
        j, t = z3.Ints('j_post t_post')
        e.prove('C17/circ-seq/length=sum-of-fragment-lengths', seq.length() == st.P(st.m))
        # j, t free: universally quantified by the validity check
        e.prove('C17/circ-seq/content=fragments-concatenated-in-gene-order',
                z3.Implies(z3.And(0 <= j, j < st.m, st.P(j) <= t, t < st.P(j + 1)),
                           seq.get(t) == st.G.get(st.a[j] + t - st.P(j))))


@register
class CircSequenceIsReportedBlocks(Lemma):
    """Over the contracts of convert_to_circ_rna (fragment k = strand-corrected block k) and
    get_circ_rna_sequence (concatenation of gene slices in gene order): for blocks in increasing genomic
    order, base t of block j of the circular sequence is, on the plus strand, chromosome base lo_j + t and, on
    the minus strand, the complement of chromosome base hi_{m-1-j} - 1 - t: the reported blocks concatenated
    in transcript orientation (reverse order, each reverse-complemented)."""
    qualname, props = 'circ_sequence_equals_reported_blocks', ('C17',)

    def obligations(self, e):
        gs, ge, strand, m, j, t = z3.Ints('gs ge strand m j t')
        lo, hi = z3.Array('blk_lo', I_, I_), z3.Array('blk_hi', I_, I_)      # genomic blocks, increasing
        C = z3.Array('chromC', I_, I_)
        G = lambda i: z3.If(strand == 1, C[gs + i], cmpl(C[ge - 1 - i]))     # gene sequence (C11 contract)
        q, q2 = z3.Ints('q q2')
        hy = [strand_pm(strand), m >= 1, 0 <= j, j < m,
              z3.ForAll([q], z3.Implies(z3.And(0 <= q, q < m), z3.And(gs <= lo[q], lo[q] < hi[q], hi[q] <= ge))),
              z3.ForAll([q, q2], z3.Implies(z3.And(0 <= q, q < q2, q2 < m), hi[q] <= lo[q2]))]
        # fragment of block q in gene coordinates (convert contract)
        fa = lambda q_: z3.If(strand == 1, lo[q_] - gs, ge - hi[q_])
        fb = lambda q_: fa(q_) + hi[q_] - lo[q_]
        # sorted by gene start: plus = same order, minus = reversed order
        sj = z3.If(strand == 1, j, m - 1 - j)
        obs = [('sorted-order/plus-same-minus-reversed', hy + [j + 1 < m],
                z3.If(strand == 1, fa(j) < fa(j + 1), fa(m - 1 - j) < fa(m - 2 - j))),
               ('sorted-fragments-disjoint', hy + [j + 1 < m],
                z3.If(strand == 1, fb(j) <= fa(j + 1), fb(m - 1 - j) <= fa(m - 2 - j))),
               ('content/base-t-of-sorted-fragment-j', hy + [0 <= t, t < hi[sj] - lo[sj]],
                G(fa(sj) + t) == z3.If(strand == 1, C[lo[sj] + t], cmpl(C[hi[sj] - 1 - t])))]
        return obs



# ----------------------------------------------------------------------------
# thresholds and the command loop
# ----------------------------------------------------------------------------
@register
class IsValidV2(Contract):
    path, qualname, props = CEP, 'CIRCexplorer2KnownRecord.is_valid', ('C17',)

    def setup(self, I):
        st = types.SimpleNamespace(circ_type='circRNA')
        rec = mk_circ_record(I, st)
        st.min_read = I.e.int('min_read_number')
        st.args = [rec, st.min_read]
        return st

    def post_return(self, I, st, ret):
        I.e.prove('C17/is_valid/v2/iff-read-number-reaches-threshold', as_bool(ret) == (st.read_number >= st.min_read))


def opt_real(I, name):
    """None or a real number"""
    if I.e.branch(I.e.bool(f'{name}_is_None'), f'{name} is None'):
        return None
    return I.e.real(name)


@register
class IsValidV3(Contract):
    path, qualname, props = CEP, 'CIRCexplorer3KnownRecord.is_valid', ('C17',)
    assumptions = ('assumed: floats are modelled as reals',)

    def setup(self, I):
        st = types.SimpleNamespace(circ_type='circRNA')
        rec = mk_circ_record(I, st, 'CIRCexplorer3KnownRecord')
        st.fpb, st.score = I.e.real('fpb_circ'), I.e.real('circ_score')
        rec.fields.update(fpb_circ=st.fpb, fpb_linear=I.e.real('fpb_linear'), circ_score=st.score)
        st.min_read = I.e.int('min_read_number')
        st.min_fbr, st.min_score = opt_real(I, 'min_fbr_circ'), opt_real(I, 'min_circ_score')
        st.args = [rec, st.min_read, st.min_fbr, st.min_score]
        return st

    def post_return(self, I, st, ret):
        # a threshold that is None (or 0) is not applied
        conds = [st.read_number >= st.min_read]
        if st.min_fbr is not None:
            conds.append(z3.Or(st.min_fbr == 0, st.fpb >= st.min_fbr))
        if st.min_score is not None:
            conds.append(z3.Or(st.min_score == 0, st.score >= st.min_score))
        I.e.prove('C17/is_valid/v3/iff-all-given-thresholds-reached', as_bool(ret) == z3.And(*conds))


class GhostDict:
    """circ_records: gene id -> list; membership is unconstrained, writes are reported to the owner"""
    def __init__(self, owner):
        self.owner = owner

    def sym_contains(self, I, item):
        return I.e.bool('gene_already_has_records')

    def sym_setitem(self, I, key, v):
        self.owner._cur.log.append(('new-gene-list', key))

    def sym_getitem(self, I, key):
        return Ghost(self.owner, ('records-of', key))

    def sym_truth(self, I):
        st = self.owner._cur
        return st.n_stored_total > 0

    def sym_method(self, I, name, args, kwargs):
        if name == 'keys':
            return self.owner._cur.keys_view
        raise Unsupported(f'circ_records.{name}')


@register
class CircCLI(Contract):
    path, qualname, props = CLI, 'parse_circexplorer', ('C17',)
    assumptions = (
        'havoc: record.convert_to_circ_rna returns a model or raises ExonNotFoundError / IntronNotFoundError / anything else '
        '(its own contract is proved separately); record.is_valid is its proved contract seen as a predicate of the record',
        'assumed: CIRCexplorerParser.parse yields N >= 0 records; load_references, generate_metadata, open, circ.io.write, '
        'get_genes_rank, sorted(keys) are external (observed only)',
    )

    def setup(self, I):
        e = I.e
        st = types.SimpleNamespace(log=[], appended={}, calls=[])
        st.N = e.int('n_records')
        e.assume(st.N >= 0)
        st.valid = z3.Function('record_is_valid', I_, B_)
        st.v3 = e.bool('circexplorer3')
        st.n_stored_total = e.int('n_stored_total')
        # the namespace has exactly the options the real parser defines (add_subparser_parse_circexplorer)
        dests = parser_dests('moPepGen.cli.parse_circexplorer', 'add_subparser_parse_circexplorer')
        st.opt_fpb = SymObj('Opt', n='--min-fpb-circ')
        st.th = dict(min_read_number=e.int('min_read_number'), min_circ_score=SymObj('Opt', n='min_circ_score'))
        st.isr, st.ier = SymObj('Range', n='start'), SymObj('Range', n='end')
        known = dict(input_path=OpaqueStr(['in']), output_path=OpaqueStr(['out']), intron_start_range='-2,0',
                     intron_end_range='-100,5', circexplorer3=st.v3, source='circRNA', **st.th)
        for d in dests:
            if 'fpb' in d or 'fbr' in d:
                known[d] = st.opt_fpb
        st.args_obj = real_namespace(dests, known)
        st.anno = SymObj('AnnoStub17')
        nk = e.int('n_genes_with_records')
        e.assume(nk >= 0)
        st.keys_view = FnView(nk, lambda i: SymObj('GeneKey', i=i), tag='keys')
        st.args = [st.args_obj]
        self._cur = st
        return st

    @property
    def models(self):
        return (self.install_models,)

    def install_models(self, reg):
        c = self
        noop = lambda I, a, k: None
        reg.func_('moPepGen/cli/common.py', 'validate_file_format', noop)
        reg.func_('moPepGen/cli/common.py', 'print_start_message', noop)
        ranges = iter(())

        def parse_range(I, a, k):
            st = c._cur
            return st.isr if a[0] == '-2,0' else st.ier
        reg.func_('moPepGen/cli/common.py', 'parse_range', parse_range)
        reg.func_('moPepGen/cli/common.py', 'load_references', lambda I, a, k: (None, c._cur.anno, None, None))
        reg.func_('moPepGen/cli/common.py', 'generate_metadata', lambda I, a, k: SymObj('Metadata'))

        def parse(I, a, k):
            st = c._cur
            I.e.prove('C17/cli/parser-gets-the-format-flag', len(a) == 2 and a[1] is st.v3)
            return FnView(st.N, lambda i: SymObj('RecStub', idx=i if is_z3(i) else z3.IntVal(i), name='r', isoform_name='t'),
                          tag='records')
        reg.func_(CEP, 'parse', parse)

        def is_valid(I, o, a, k):
            st = c._cur
            v3 = st.path_v3
            want = [st.th['min_read_number']] + ([st.opt_fpb, st.th['min_circ_score']] if v3 else [])
            I.e.prove('C17/cli/is_valid-gets-the-thresholds-of-the-command', len(a) == len(want) and all(x is y for x, y in zip(a, want)))
            st.calls.append(('is_valid', o.fields['idx']))
            return st.valid(o.fields['idx'])
        reg.method_('RecStub', 'is_valid', is_valid)

        def convert(I, o, a, k):
            st = c._cur
            I.e.prove('C17/cli/convert-gets-annotation-and-tolerance-ranges', len(a) == 3 and a[0] is st.anno and a[1] is st.isr and a[2] is st.ier)
            st.calls.append(('convert', o.fields['idx']))
            ch = I.e.choose(4, 'convert outcome')
            st.outcome = ch
            if ch == 1:
                raise PyRaise(SymExc('ExonNotFoundError', ['g', 'f']))
            if ch == 2:
                raise PyRaise(SymExc('IntronNotFoundError', ['g', 'f']))
            if ch == 3:
                raise PyRaise(SymExc('<any>', ['failure']))
            st.model = SymObj('CircModelStub', gene_id=SymObj('GeneKey', i=I.e.int('gene_of_record')), idx=o.fields['idx'])
            return st.model
        reg.method_('RecStub', 'convert_to_circ_rna', convert)
        reg.method_('AnnoStub17', 'get_genes_rank', lambda I, o, a, k: SymObj('Rank'))
        reg.sorted_hooks.append(lambda I, items, kw: items if items is c._cur.keys_view else None)
        reg.ext_('open', lambda I, a, k: SymObj('File'))

        def write(I, a, k):
            c._cur.log.append(('write', a[0]))
        reg.func_('moPepGen/circ/io.py', 'write', write)
        reg.ext_('circ.io.write', write)
        reg.strict_attr_classes = {'Namespace'}

        def stale(I, obj, attr):
            I.e.prove('C17/cli/skipped-record-contributes-nothing (no use of a record converted in an earlier iteration)', False)
        reg.on_stale_use = stale

    # ---- main loop
    def tally_fields(self, env):
        t = env['tally']
        sk = t.fields['skipped']
        return t, sk

    def havoc(self, I, env, k):
        st = self._cur
        e = I.e
        t, sk = self.tally_fields(env)
        t.fields['total'] = e.int('t_total')
        sk.fields['total'] = e.int('t_skipped')
        sk.fields['insufficient_evidence'] = e.int('t_insufficient')
        sk.fields['invalid_record'] = e.int('t_invalid')
        st.n_stored = e.int('n_stored')
        env['circ_records'] = GhostDict(self)
        st.path_v3 = e.branch(st.v3, 'circexplorer3')

    def inv(self, I, env, k):
        st = self._cur
        t, sk = self.tally_fields(env)
        n_stored = getattr(st, 'n_stored', 0) if not isinstance(k, int) else 0
        return [('total=records-read', t.fields['total'] == k),
                ('skipped=insufficient+invalid', sk.fields['total'] == sk.fields['insufficient_evidence'] + sk.fields['invalid_record']),
                ('read=stored+skipped', k == n_stored + sk.fields['total']),
                ('counters-nonnegative', z3.And(sk.fields['insufficient_evidence'] >= 0, sk.fields['invalid_record'] >= 0, n_stored >= 0))]

    def on_init(self, I, env):
        self._cur.path_v3 = None

    def on_head(self, I, env, k):
        st = self._cur
        t, sk = self.tally_fields(env)
        st.pre = dict(ins=sk.fields['insufficient_evidence'], inv=sk.fields['invalid_record'], n_app=len(st.appended.get('stored', [])),
                      n_calls=len(st.calls))
        st.outcome = None

    def on_append(self, I, name, item):
        st = self._cur
        if isinstance(name, tuple) and name[0] == 'records-of':
            I.e.prove('C17/cli/record-stored-under-its-own-gene', name[1] is item.fields['gene_id'])
            st.appended.setdefault('stored', []).append(item)
            st.n_stored = st.n_stored + 1
        else:
            st.appended.setdefault(name, []).append(item)

    def step(self, I, env, k):
        st = self._cur
        t, sk = self.tally_fields(env)
        stored = st.appended.get('stored', [])[st.pre['n_app']:]
        calls = st.calls[st.pre['n_calls']:]
        d_ins = z3.simplify(sk.fields['insufficient_evidence'] - st.pre['ins'])
        d_inv = z3.simplify(sk.fields['invalid_record'] - st.pre['inv'])
        one, zero = (lambda x: z3.is_true(z3.simplify(x == 1))), (lambda x: z3.is_true(z3.simplify(x == 0)))
        items = [('is_valid-asked-first-for-this-record', len(calls) >= 1 and calls[0][0] == 'is_valid' and z3.is_true(z3.simplify(calls[0][1] == k)))]
        if len(calls) == 1:
            items += [('below-threshold: counted-as-insufficient-evidence-and-not-converted',
                       z3.And(z3.Not(st.valid(k)), one(d_ins), zero(d_inv), len(stored) == 0))]
        elif st.outcome in (1, 2):
            items += [('no-matching-transcript: counted-as-invalid-record-and-nothing-stored',
                       z3.And(st.valid(k), zero(d_ins), one(d_inv), len(stored) == 0))]
        else:
            items += [('accepted-record-stored-exactly-once',
                       z3.And(st.valid(k), zero(d_ins), zero(d_inv), len(stored) == 1 and stored[0] is st.model))]
        return items

    # ---- output loop
    def havoc1(self, I, env, k):
        env['records'] = Ghost(self, 'records')

    @property
    def loops(self):
        return {0: LoopSpec(inv=self.inv, havoc=self.havoc, on_head=self.on_head, step=self.step, on_init=self.on_init),
                1: LoopSpec(inv=lambda I, env, k: [], havoc=self.havoc1, on_head=self.head1, step=self.step1)}

    def head1(self, I, env, k):
        self._cur.n_log = len(self._cur.log)

    def step1(self, I, env, k):
        st = self._cur
        new = [x for x in st.log[st.n_log:] if x[1] == 'extend']
        ok = len(new) == 1 and new[0][0] == 'records' and isinstance(new[0][2], Ghost) and isinstance(new[0][2].name, tuple) \
            and z3.is_true(z3.simplify(new[0][2].name[1].fields['i'] == k))
        return [('output-gets-the-stored-records-of-every-gene-once', ok)]

    def post_return(self, I, st, ret):
        writes = [x for x in st.log if x[0] == 'write']
        I.e.prove('C17/cli/exit/at-most-one-write', len(writes) <= 1)
        if writes:
            I.e.prove('C17/cli/exit/written-list-is-the-collected-records',
                      isinstance(writes[0][1], Ghost) and writes[0][1].name == 'records')

    def post_raise(self, I, st, exc):
        I.e.prove('C17/cli/raise/only-an-unexpected-failure-of-convert-propagates', exc.cls == '<any>' and st.outcome == 3)
        if exc.cls == 'AttributeError':
            I.e.prove(f'C17/cli/every-option-read-is-defined-by-the-parser:{exc.msg}', False)



# ----------------------------------------------------------------------------
# Native side
# ----------------------------------------------------------------------------
from pyvc.native import NativeCheck
from . import realobj
from .c14 import _rc


# ----------------------------------------------------------------------------
# the text parser in front of the converter
# ----------------------------------------------------------------------------
class _CxField:
    """column `col` of data line k; int() / float() of it is the number written there (assumed: str <-> number inverse)"""
    def __init__(self, owner, k, col):
        self.owner, self.k, self.col = owner, k, col

    def sym_method(self, I, name, a, kw):
        if name == 'split' and a == [',']:
            return _CxParts(self.owner, self.k, self.col)
        raise Unsupported(f'CIRCexplorer field.{name}')

    def sym_int(self, I):
        return SymObj('CxNumber', kind='int', k=self.k, col=self.col, part=None)

    def sym_float(self, I):
        return SymObj('CxNumber', kind='float', k=self.k, col=self.col, part=None)

    def sym_str(self, I):
        return self


class _CxPart:
    def __init__(self, owner, k, col, j):
        self.owner, self.k, self.col, self.j = owner, k, col, j

    def sym_int(self, I):
        return SymObj('CxNumber', kind='int', k=self.k, col=self.col, part=self.j)


class _CxParts:
    """the comma-separated parts of a column"""
    def __init__(self, owner, k, col):
        self.owner, self.k, self.col = owner, k, col

    def sym_view(self, I):
        n = z3.Function('cx_parts_in_column', I_, I_, I_)(self.k, z3.IntVal(self.col))
        I.e.assume(n >= 1)
        v = FnView(n, lambda j: _CxPart(self.owner, self.k, self.col, j if is_z3(j) else z3.IntVal(j)), tag='parts of a column')
        v.cx = (self.k, self.col)
        return v


class _CxLine:
    def __init__(self, owner, k, stripped=False):
        self.owner, self.k, self.stripped = owner, k, stripped

    def sym_method(self, I, name, a, kw):
        if name == 'rstrip' and not a:
            return _CxLine(self.owner, self.k, True)
        if name == 'split' and a == ['\t']:
            if not self.stripped:
                raise Unsupported('the line is split with its line break still attached')
            return [_CxField(self.owner, self.k, c) for c in range(21 if self.owner.V3 else 18)]
        raise Unsupported(f'CIRCexplorer line.{name}')


class _CxFile:
    def __init__(self, owner):
        self.owner = owner

    def sym_method(self, I, name, a, kw):
        if name == '__enter__':
            return self
        if name in ('__exit__', 'close'):
            return None
        raise Unsupported(f'file.{name}')

    def sym_view(self, I):
        st = self.owner._cur
        zz = lambda i: i if is_z3(i) else z3.IntVal(i)
        return FnView(st.n, lambda i: _CxLine(self.owner, zz(i)), tag='lines of the CIRCexplorer table')


class _CircTable(Contract):
    """CIRCexplorerParser.parse(path): every line of the table yields exactly one record, in file order, whose start, block sizes, block offsets, type,
    isoform and read number (and the other columns) are the numbers / texts written in the columns of that line; nothing ends the loop early"""
    path, qualname, props = CEP, 'parse', ('C17',)
    V3 = False
    TEXT = dict(chrom=0, name=3, strand=5, circ_type=13, gene_name=14, isoform_name=15, flank_intron=17)
    INT = dict(start=1, end=2, thick_start=6, thick_end=7, exon_count=9, read_number=12)
    LISTS = dict(item_rgb=8, exon_sizes=10, exon_offsets=11, index=16)
    FLOAT = dict(score=4)
    assumptions = ('assumed: every line of the table has the 18 (CIRCexplorer3: 21) tab-separated columns, none empty, so rstrip() removes the line break only; '
                   'int() / float() of a column is the number written there',)

    def setup(self, I):
        e = I.e
        st = types.SimpleNamespace(yielded=[])
        st.n = e.int('n_lines')
        e.assume(st.n >= 0)
        st.args = [OpaqueStr(['table.txt']), self.V3]
        from .tables import first_loop_kind
        if first_loop_kind(I, self.path, self.qualname) != 'for':
            raise Unsupported('the reader is not written as `for line in handle` (this contract follows that form)')
        self._cur = st
        return st

    @property
    def models(self):
        c = self

        def inst(reg):
            reg.ext_('open', lambda I, a, k: _CxFile(c))
            reg.ctor_('CIRCexplorer2KnownRecord', lambda I, a, k: SymObj('CxRow17', v3=False, **k) if not a else I.raise_('TypeError', 'positional'))
            reg.ctor_('CIRCexplorer3KnownRecord', lambda I, a, k: SymObj('CxRow17', v3=True, **k) if not a else I.raise_('TypeError', 'positional'))
            reg.on_yield = lambda I, frame, v: c._cur.yielded.append(v)

            def comp(I, node, env, view, kind):
                from pyvc.interp import Env
                if kind == 'list' and isinstance(view, FnView) and view.tag == 'parts of a column' and not node.generators[0].ifs:
                    j = z3.Int('j_part')
                    sub = Env({}, env)
                    I.assign(node.generators[0].target, view.get(j), sub)
                    el = I.eval(node.elt, sub)
                    ok = isinstance(el, SymObj) and el.cls == 'CxNumber' and el.fields['kind'] == 'int' and el.fields['part'] is not None and z3.eq(el.fields['part'], j)
                    return SymObj('CxIntList', k=view.cx[0], col=view.cx[1], elementwise=bool(ok))
                return None
            reg.comprehension_hooks.append(comp)
        return (inst,)

    def head(self, I, env, k):
        self._cur.mark = len(self._cur.yielded)

    def step(self, I, env, k):
        st = self._cur
        new = st.yielded[st.mark:]
        if len(new) != 1 or not (isinstance(new[0], SymObj) and new[0].cls == 'CxRow17'):
            return [('one-record-per-line', False)]
        r = new[0]
        same = lambda t: z3.eq(z3.simplify(t), z3.simplify(k))
        obl = [('record-class-follows-the-format-flag', z3.BoolVal(r.fields['v3'] == self.V3))]
        for name, col in self.TEXT.items():
            v = r.fields.get(name)
            obl.append((f'{name}-is-column-{col + 1}-of-this-line', z3.BoolVal(bool(isinstance(v, _CxField) and v.col == col and same(v.k)))))
        for kind, table in (('int', self.INT), ('float', self.FLOAT if not self.V3 else dict(self.FLOAT, fpb_circ=18, fpb_linear=19, circ_score=20))):
            for name, col in table.items():
                v = r.fields.get(name)
                ok = isinstance(v, SymObj) and v.cls == 'CxNumber' and v.fields['kind'] == kind and v.fields['col'] == col and v.fields['part'] is None and same(v.fields['k'])
                obl.append((f'{name}-is-the-number-in-column-{col + 1}-of-this-line', z3.BoolVal(bool(ok))))
        for name, col in self.LISTS.items():
            v = r.fields.get(name)
            ok = isinstance(v, SymObj) and v.cls == 'CxIntList' and v.fields['col'] == col and v.fields['elementwise'] and same(v.fields['k'])
            obl.append((f'{name}-are-the-numbers-in-column-{col + 1}-of-this-line-in-order', z3.BoolVal(bool(ok))))
        return obl

    @property
    def loops(self):
        return {0: LoopSpec(inv=lambda I, env, k: [], on_head=self.head, step=self.step, target_after='unknown',
                            on_break=lambda I, env, k: [('every-line-is-visited', False)],
                            on_exit=lambda I, env, n: [('all-lines-were-visited', n == self._cur.n)])}


@register
class CircTableV2(_CircTable):
    __doc__ = _CircTable.__doc__
    V3 = False


@register
class CircTableV3(_CircTable):
    __doc__ = _CircTable.__doc__
    V3 = True

    def name(self):
        return super().name() + '[CIRCexplorer3]'



class NativeCirc(NativeCheck):
    name = 'circ_records'
    props = ('C17',)
    functions = (f'{CEP}:CIRCexplorer2KnownRecord.convert_to_circ_rna', f'{CRC}:CircRNAModel.get_circ_rna_sequence',
                 f'{GA}:GenomicAnnotation.find_exon_index', f'{GA}:GenomicAnnotation.find_intron_index')
    bounded_for = ''
    bound = ('CPython cross-check of the proved C17 contracts and of the assumed record algebra (slice / + of '
             'DNASeqRecordWithCoordinates incl. the Biopython constructor call-back): random gene (both strands), transcript '
             'with <= 5 exons, records made of consecutive exon runs, of perturbed blocks and of introns with tolerance ranges')
    quick_budget_s = 10
    thorough_budget_s = 90

    def cases(self, rng, tier):
        for _ in range(300 if tier != 'thorough' else 5000):
            ex = realobj.random_exons(rng, 5, 70, 5)
            gs, ge = ex[0][0] - rng.randint(0, 3), ex[-1][1] + rng.randint(0, 3)
            L = ge + rng.randint(0, 5)
            chrom = ''.join(rng.choice('ACGT') for _ in range(L))
            strand = rng.choice([1, -1])
            kind = rng.choice(['exons', 'exons', 'perturbed', 'intron'] if len(ex) > 1 else ['exons', 'perturbed'])
            if kind == 'intron':
                j = rng.randrange(len(ex) - 1)
                blocks = [(ex[j][1] + rng.choice([0, 0, 1, -1, 2]), ex[j + 1][0] + rng.choice([0, 0, -1, 1, -3]))]
                if blocks[0][0] >= blocks[0][1]:
                    blocks = [(ex[j][1], ex[j + 1][0])]
            else:
                i = rng.randrange(len(ex))
                j = rng.randint(i, len(ex) - 1)
                blocks = [tuple(x) for x in ex[i:j + 1]]
                if kind == 'perturbed':
                    q = rng.randrange(len(blocks))
                    a, b = blocks[q]
                    blocks[q] = (a + rng.choice([1, 0, -1]), b + rng.choice([1, -1])) if b - a > 2 else (a, b + 1)
            yield dict(chrom=chrom, gene=(gs, ge), strand=strand, exons=[tuple(x) for x in ex], blocks=blocks,
                       ctype='ciRNA' if kind == 'intron' else 'circRNA',
                       isr=rng.choice([(0, 0), (-2, 0), (-1, 1)]), ier=rng.choice([(0, 0), (-100, 5), (-1, 1)]))

    def check(self, inp):
        from moPepGen.parser.CIRCexplorerParser import CIRCexplorer2KnownRecord
        from moPepGen import err
        gs, ge = inp['gene']
        strand, exons, blocks, chrom = inp['strand'], inp['exons'], inp['blocks'], inp['chrom']
        anno = realobj.anno_from([dict(id='G', start=gs, end=ge, strand=strand, transcripts=['T'])],
                                 [dict(id='T', gene='G', strand=strand, exons=exons)])
        genome = realobj.genome_from({'chr1': chrom})
        S, E = blocks[0][0], blocks[-1][1]
        if not (gs <= S and E <= ge and all(a < b for a, b in blocks)):
            return None
        rec = CIRCexplorer2KnownRecord(chrom='chr1', start=S, end=E, name='c', score=0.0, strand='+', thick_start=S, thick_end=S,
                                       item_rgb=[0, 0, 0], exon_count=len(blocks), exon_sizes=[b - a for a, b in blocks],
                                       exon_offsets=[a - S for a, b in blocks], read_number=5, circ_type=inp['ctype'],
                                       gene_name='g', isoform_name='T', index=[0], flank_intron='')
        is_exons = all(tuple(b) in exons for b in blocks)
        call = f"convert_to_circ_rna(blocks={blocks}, type={inp['ctype']}, strand={strand})"
        try:
            model = rec.convert_to_circ_rna(anno, tuple(inp['isr']), tuple(inp['ier']))
        except err.ExonNotFoundError:
            if inp['ctype'] == 'circRNA' and is_exons:
                return dict(call=call, observed='ExonNotFoundError', expected='record accepted (every block is an exon)',
                            signature='exon-run-rejected')
            return None
        except err.IntronNotFoundError:
            return None
        if inp['ctype'] == 'circRNA' and not is_exons:
            return dict(call=call, observed='accepted', expected='ExonNotFoundError', signature='non-exon-block-accepted')
        if inp['ctype'] == 'ciRNA':
            (lo, hi), isr, ier = blocks[0], inp['isr'], inp['ier']
            inr = lambda x, r: r[0] <= x <= r[1]
            ok = False
            for j in range(len(exons) - 1):
                if strand == 1:
                    ok |= inr(lo - exons[j][1], isr) and (inr(hi - exons[j + 1][0], ier) or exons[j + 1][0] >= hi)
                else:
                    ok |= inr(-(hi - exons[j + 1][0]), isr) and (inr(-(lo - exons[j][1]), ier) or exons[j][1] <= lo)
            if not ok:
                return dict(call=call, observed='accepted', expected='IntronNotFoundError (no annotated intron within tolerance)',
                            signature='non-intron-accepted')
        exp = [(a - gs, b - gs) if strand == 1 else (ge - b, ge - a) for a, b in blocks]
        got = [(int(f.location.start), int(f.location.end)) for f in model.fragments]
        if got != exp:
            return dict(call=call, observed=f'fragments {got}', expected=f'{exp}', signature='fragments-differ-from-blocks')
        a, b = (S - gs, E - gs) if strand == 1 else (ge - E, ge - S)
        if model.id != f'CIRC-T-{a}:{b}':
            return dict(call=call, observed=model.id, expected=f'CIRC-T-{a}:{b}', signature='id')
        gene_seq = anno.genes['G'].get_gene_sequence(genome['chr1'])
        seq = str(model.get_circ_rna_sequence(gene_seq).seq)
        parts = [chrom[x:y] for x, y in blocks]
        want = ''.join(parts) if strand == 1 else ''.join(_rc(p) for p in reversed(parts))
        if seq != want:
            return dict(call=call + '.get_circ_rna_sequence', observed=seq, expected=want, signature='circular-sequence')
        return None

    def nontrivial(self, inp):
        return (inp['strand'], inp['ctype'], len(inp['blocks']), len(inp['exons']), tuple(inp['isr']), tuple(inp['ier']))


class NativeCircCLI(NativeCheck):
    name = 'circ_cli_options'
    props = ('C17',)
    functions = (f'{CLI}:parse_circexplorer',)
    bounded_for = ''
    bound = ('CPython run of the real parseCIRCexplorer command line (real argparse definition) on the demo CIRCexplorer2 / '
             'CIRCexplorer3 files, with and without the CIRCexplorer3 thresholds: the command completes and the tally adds up')
    quick_budget_s = 30
    thorough_budget_s = 60

    def cases(self, rng, tier):
        yield dict(v3=False, extra=[])
        yield dict(v3=True, extra=[])
        yield dict(v3=True, extra=['--min-fpb-circ', '1', '--min-circ-score', '1'])

    def from_model(self, model):
        return dict(v3=True, extra=[])

    def check(self, inp):
        import argparse, tempfile, shutil, os
        from pathlib import Path
        import importlib
        mod = importlib.import_module('moPepGen.cli.parse_circexplorer')
        data = Path(os.environ.get('PYVC_REPO', '/repo')) / 'test' / 'files'
        d = Path(tempfile.mkdtemp(prefix='verif_c17_'))
        try:
            top = argparse.ArgumentParser(prog='moPepGen')
            sp = mod.add_subparser_parse_circexplorer(top.add_subparsers(dest='command'))
            src = data / 'circRNA' / ('CIRCexplorer3_circularRNA_known.txt' if inp['v3'] else 'CIRCexplorer_circularRNA_known.txt')
            argv = ['-i', str(src), '-o', str(d / 'out.gvf'), '--source', 'circRNA', '--annotation-gtf', str(data / 'annotation.gtf'),
                    '--quiet'] + (['--circexplorer3'] if inp['v3'] else []) + inp['extra']
            args = top.parse_args([sp.prog.split()[-1]] + argv)
            try:
                args.func(args)
            except Exception as ex:
                return dict(call='parseCIRCexplorer ' + ' '.join(argv[8:]), observed=f'{type(ex).__name__}: {ex}',
                            expected='the command completes', signature='command-aborts')
            n_in = sum(1 for l in open(src) if l.strip())
            n_out = sum(1 for l in open(d / 'out.gvf') if l.strip() and not l.startswith('#')) if (d / 'out.gvf').exists() else 0
            if n_out > n_in:
                return dict(call='parseCIRCexplorer', observed=f'{n_out} records from {n_in} rows', expected='at most one record per row',
                            signature='more-records-than-rows')
        finally:
            shutil.rmtree(d, ignore_errors=True)
        return None


class NativeCircRows(NativeCheck):
    name = 'circ_rows_through_the_command'
    props = ('C17',)
    functions = (f'{CLI}:parse_circexplorer', 'moPepGen/parser/CIRCexplorerParser.py:parse')
    bounded_for = ('every valid row of the input table yields its own record, read back from the GVF with exactly the reported blocks: rows with '
                   'many blocks (offsets of different digit counts), and two rows of one isoform with the same ends but different blocks')
    bound = 'three hand-made rows on the exons of ENST00000614167.2 of the demo annotation, CIRCexplorer2 layout'
    quick_budget_s = 30
    thorough_budget_s = 30

    def cases(self, rng, tier):
        yield dict(v3=False)

    def check(self, inp):
        import argparse, tempfile, shutil, os
        from pathlib import Path
        import importlib
        mod = importlib.import_module('moPepGen.cli.parse_circexplorer')
        from moPepGen import circ
        data = Path(os.environ.get('PYVC_REPO', '/repo')) / 'test' / 'files'
        exons = [(0, 323), (323, 405), (405, 750), (750, 869), (1097, 1264), (1264, 1490)]       # ENST00000614167.2, + strand, gene starts at 0
        picks = [[0, 1, 2, 3, 4], [1, 2, 3], [1, 3]]
        d = Path(tempfile.mkdtemp(prefix='verif_c17r_'))
        try:
            rows, want = [], []
            for n, pk in enumerate(picks):
                blocks = [exons[i] for i in pk]
                st_, en_ = blocks[0][0], blocks[-1][1]
                sizes = ','.join(str(b - a) for a, b in blocks)
                offs = ','.join(str(a - st_) for a, b in blocks)
                idx = ','.join(str(i + 1) for i in pk)
                f = ['chr22', str(st_), str(en_), f'circular_RNA/{n + 3}', '0', '+', str(st_), str(st_), '0,0,0', str(len(blocks)), sizes, offs, str(n + 3), 'circRNA',
                     'RIBC2', 'ENST00000614167.2', idx, 'chr22:0-1|chr22:2-3']
                rows.append('\t'.join(f))
                want.append(sorted(blocks))
            src = d / 'rows.txt'
            src.write_text('\n'.join(rows) + '\n')
            top = argparse.ArgumentParser(prog='moPepGen')
            sp = mod.add_subparser_parse_circexplorer(top.add_subparsers(dest='command'))
            argv = ['-i', str(src), '-o', str(d / 'out.gvf'), '--source', 'circRNA', '--annotation-gtf', str(data / 'annotation.gtf'), '--quiet']
            args = top.parse_args([sp.prog.split()[-1]] + argv)
            args.func(args)
            got = []
            with open(d / 'out.gvf') as fh:
                for rec in circ.io.parse(fh):
                    got.append(sorted((int(x.location.start), int(x.location.end)) for x in rec.fragments))
            if sorted(got) != sorted(want):
                return dict(call='parseCIRCexplorer on three rows of ENST00000614167.2 (5 blocks; exons 2-3-4; exons 2 and 4)', observed=sorted(got), expected=sorted(want),
                            signature='a-valid-row-has-no-record-of-its-own')
        finally:
            shutil.rmtree(d, ignore_errors=True)
        return None

    def nontrivial(self, inp):
        return str(inp)


NATIVE = [NativeCirc(), NativeCircCLI(), NativeCircRows()]
