"""C07 — --skip-failed isolates failures; without it failures abort.

call_variant_peptides_wrapper is executed symbolically with the three per-unit callers
(call_peptide_main / call_peptide_fusion / call_peptide_circ_rna), call_canonical_peptides and
the pool/annotation helpers *havocked*: each may return a fresh result or raise anything.
"""
from __future__ import annotations
import types
import z3
from pyvc.contract import Contract, register
from pyvc.core import Unsupported, as_bool
from pyvc.interp import LoopSpec, PyRaise
from pyvc.values import *

CVP = 'moPepGen/cli/call_variant_peptide.py'


class GhostMap:
    """dgraphs[1] / dgraphs[2] / pgraphs[..]: only the writes are observed."""
    def __init__(self, owner, name):
        self.owner, self.name = owner, name

    def sym_setitem(self, I, idx, v):
        self.owner.writes.append((self.name, idx, v))

    def sym_getitem(self, I, idx):
        return SymObj('GraphStub')


@register
class Wrapper(Contract):
    path, qualname, props = CVP, 'call_variant_peptides_wrapper', ('C07', 'C05')
    max_paths = 6000
    assumptions = (
        'havoc: call_peptide_main / call_peptide_fusion / call_peptide_circ_rna return a fresh (peptide_map, graph, graph) or raise any exception',
        'havoc: call_canonical_peptides, pool.filter_variants, pool[tx], coordinate_transcript_to_genomic, coordinate_genomic_to_gene may raise any exception',
        'assumed: the nested closure add_peptide_anno(x) merges x into peptide_anno label-wise, first wins (its body is executed only by the bounded fault-injection runs)',
        'dropped: @common.timeout() decorator of call_variant_peptides_wrapper',
    )

    def setup(self, I):
        e = I.e
        st = types.SimpleNamespace()
        st.skip_failed = e.bool('skip_failed')
        st.nT, st.nF, st.nC = e.int('nT'), e.int('nF'), e.int('nC')
        for n in (st.nT, st.nF, st.nC):
            e.assume(n >= 0)
        st.merged = []          # ghost: unit tags merged on this path, in order
        st.writes = []          # ghost: graph-map writes
        st.failed = {'main': False, 'fusion': z3.BoolVal(False), 'circ': z3.BoolVal(False)}
        st.main_ok = False
        st.denylist_updates = []
        st.iter_failed = None
        st.cur_unit = None
        st.unit_failed_now = None
        st.in_canonical = False
        tx_id = 'ENST_T'
        def fusion_at(i):
            return SymObj('VariantRecord', id=OpaqueStr(['fusion-id', i]), unit=('fusion', i),
                          location=SymObj('FeatureLocation', start=e.int('fus_start'), end=e.int('fus_end'),
                                          strand=1, seqname=tx_id, reading_frame_index=None,
                                          start_offset=0, end_offset=0, ref=None, ref_db=None),
                          attrs={'GENE_ID': 'ENSG_G', 'ACCEPTER_TRANSCRIPT_ID': 'ENST_A'})
        def circ_at(i):
            return SymObj('CircRNAModel', id=OpaqueStr(['circ-id', i]), unit=('circ', i))
        st.series = SymObj('TranscriptionalVariantSeries',
                           transcriptional=FnView(st.nT, lambda i: SymObj('VariantRecord', unit=('tx', i)), tag='transcriptional'),
                           fusion=FnView(st.nF, fusion_at, tag='fusion'),
                           circ_rna=FnView(st.nC, circ_at, tag='circ_rna'), intronic=[])
        st.anno = SymObj('AnnoStub7')
        st.ref = SymObj('ReferenceData', anno=st.anno, genome=None, canonical_peptides=set())
        st.shared_tx = SymObj('VariantList', shared=True)
        st.shared_series = SymObj('TranscriptionalVariantSeries', transcriptional=st.shared_tx, fusion=[], circ_rna=[], intronic=[])
        st.pool = SymObj('VariantRecordPool', data={}, anno=st.anno, series_obj=st.shared_series)
        st.kwargs = dict(tx_id=tx_id, variant_series=st.series, tx_seqs={tx_id: SymObj('TxSeq')},
                         gene_seqs={}, reference_data=st.ref, pool=st.pool,
                         cleavage_params=SymObj('CleavageParams'),
                         noncanonical_transcripts=e.bool('noncanonical_transcripts'),
                         max_adjacent_as_mnv=e.int('max_adjacent_as_mnv'),
                         truncate_sec=e.bool('truncate_sec'), w2f_reassignment=e.bool('w2f'),
                         backsplicing_only=e.bool('backsplicing_only'), save_graph=e.bool('save_graph'),
                         coding_novel_orf=e.bool('coding_novel_orf'), skip_failed=st.skip_failed,
                         timeout=1800, max_variants_per_node=(7,), additional_variants_per_misc=(2,))
        st.args = []
        self._cur = st
        return st

    @property
    def models(self):
        return (self.install_models,)

    def install_models(self, reg):
        c = self

        def any_failure(msg):
            # really any kind of failure, a TimeoutError included: a handler for a specific class may or may not catch it
            x = SymExc('<any>', [msg])
            x.refinable = True
            return x

        def mark_failed(kind, unit):
            st = c._cur
            st.unit_failed_now = unit
            if kind == 'main':
                st.failed['main'] = True
            elif kind == 'fusion':
                st.failed['fusion'] = z3.BoolVal(True)
            elif kind == 'circ':
                st.failed['circ'] = z3.BoolVal(True)

        def may_raise(I, what):
            if I.e.branch(I.e.bool(f'raises_{what}'), f'{what} raises'):
                st = c._cur
                if st.cur_unit is not None:
                    mark_failed(st.cur_unit[0], st.cur_unit)
                raise PyRaise(any_failure(f'failure in {what}'))

        def canonical(I, a, k):
            c._cur.cur_unit = None
            c._cur.in_canonical = True
            may_raise(I, 'call_canonical_peptides')
            c._cur.in_canonical = False
            c._cur.cur_unit = ('main', 0)
            return SymObj('Denylist')
        reg.func_(CVP, 'call_canonical_peptides', canonical)

        def deny_update(I, o, a, k):
            c._cur.denylist_updates.append(a[0])
        reg.method_('Denylist', 'update', deny_update)
        # a set made by the function itself (the real code makes none): it is not the canonical denylist, whatever is put into it later
        reg.empty_set_hook = lambda I: SymObj('OwnSet07')
        reg.method_('OwnSet07', 'update', lambda I, o, a, k: None)
        reg.method_('OwnSet07', 'add', lambda I, o, a, k: None)

        def unit_caller(kind):
            def hook(I, a, k):
                st = c._cur
                if kind == 'main':
                    unit = ('main', 0)
                elif kind == 'fusion':
                    unit = k['variant'].fields['unit']
                else:
                    unit = k['record'].fields['unit']
                I.e.prove(f'C07/{kind}/denylist-is-the-canonical-denylist',
                          isinstance(k.get('denylist'), SymObj) and k['denylist'].cls == 'Denylist')
                if I.e.branch(I.e.bool(f'fails_{kind}'), f'{kind} unit fails'):
                    mark_failed(kind, unit)
                    raise PyRaise(any_failure(f'{kind} unit failed'))
                if kind == 'main':
                    st.main_ok = True
                pm = SymObj('PeptideMap', unit=unit)
                return (pm, SymObj('Graph', unit=unit, which='d'), SymObj('Graph', unit=unit, which='p'))
            return hook
        reg.func_(CVP, 'call_peptide_main', unit_caller('main'))
        reg.func_(CVP, 'call_peptide_fusion', unit_caller('fusion'))
        reg.func_(CVP, 'call_peptide_circ_rna', unit_caller('circ'))

        def add_anno(I, closure, a, k):
            x = a[0]
            c._cur.merged.append(x)
        reg._closures['add_peptide_anno'] = add_anno

        reg.method_('PeptideMap', 'keys', lambda I, o, a, k: SymObj('PeptideKeys', unit=o.fields['unit']))

        def set_hook(v):
            if isinstance(v, SymObj) and v.cls == 'PeptideKeys':
                return lambda I, v: SymObj('PeptideSet', unit=v.fields['unit'])
            return None
        reg.set_hooks.append(set_hook)
        reg.protocol_('PeptideSet', '__bool__', lambda I, o: I.e.bool('main_peptides_nonempty'))
        reg.protocol_('PeptideSet', '__iter__',
                      lambda I, o: FnView(I.e.int('n_main_peptides'), lambda i: SymObj('Peptide', unit=o.fields['unit'], i=i), tag='main_peptides'))
        reg.method_('TranscriptionalVariantSeries', 'has_any_alternative_splicing',
                    lambda I, o, a, k: I.e.bool('has_alt_splicing'))

        def anno_call(name):
            def hook(I, o, a, k):
                may_raise(I, name)
                return I.e.int(name)
            return hook
        reg.method_('AnnoStub7', 'coordinate_transcript_to_genomic', anno_call('coordinate_transcript_to_genomic'))
        reg.method_('AnnoStub7', 'coordinate_genomic_to_gene', anno_call('coordinate_genomic_to_gene'))

        def filter_variants(I, o, a, k):
            may_raise(I, 'filter_variants')
            return SymObj('VariantList')
        reg.method_('VariantRecordPool', 'filter_variants', filter_variants)

        def pool_get(I, o, key):
            may_raise(I, 'pool_getitem')
            if 'series_obj' not in o.fields:
                o.fields['series_obj'] = SymObj('TranscriptionalVariantSeries', transcriptional=SymObj('VariantList'), fusion=[], circ_rna=[], intronic=[])
            return o.fields['series_obj']
        reg.protocol_('VariantRecordPool', '__getitem__', pool_get)
        reg.protocol_('VariantRecordPool', '__setitem__', lambda I, o, key, v: o.fields.__setitem__('series_obj', v))

    # ------------------------------------------------------------------ loops
    def flags_term(self, env):
        return [as_bool(x) for x in env['success_flags']]

    def unit_inv(self, kind):
        def inv(I, env, k):
            st = self._cur
            f = self.flags_term(env)
            items = [
                ('flag-main', f[0] == z3.Not(as_bool(st.failed['main']))),
                ('flag-fusion', f[1] == z3.Not(st.failed['fusion'])),
                ('flag-circ', f[2] == z3.Not(st.failed['circ'])),
                ('failures-only-with-skip-failed',
                 z3.Implies(z3.Or(as_bool(st.failed['main']), st.failed['fusion'], st.failed['circ']), st.skip_failed)),
            ]
            return items
        return inv

    def unit_havoc(self, kind):
        def havoc(I, env, k):
            st = self._cur
            e = I.e
            env['success_flags'] = (e.bool('flag0'), e.bool('flag1'), e.bool('flag2'))
            if kind == 'fusion':
                st.failed['fusion'] = e.bool('failed_fusion_before')
            else:
                st.failed['circ'] = e.bool('failed_circ_before')
            if not isinstance(env['dgraphs'][1], GhostMap):
                env['dgraphs'] = (env['dgraphs'][0], GhostMap(st, 'd1'), GhostMap(st, 'd2'))
                env['pgraphs'] = (env['pgraphs'][0], GhostMap(st, 'p1'), GhostMap(st, 'p2'))
        return havoc

    def unit_on_head(self, kind):
        def on_head(I, env, k):
            st = self._cur
            st.merged_before = len(st.merged)
            st.writes_before = len(st.writes)
            st.unit_failed_now = None
            st.cur_unit = (kind, k)
        return on_head

    def unit_step(self, kind):
        def step(I, env, k):
            st = self._cur
            new_merged = st.merged[st.merged_before:]
            new_writes = st.writes[st.writes_before:]
            unit_ok = st.unit_failed_now is None and not getattr(st, 'helper_failed_now', False)
            def is_unit(x):
                return isinstance(x, SymObj) and 'unit' in x.fields and x.fields['unit'][0] == kind \
                    and z3.is_true(z3.simplify(x.fields['unit'][1] == k))
            out = [('shared-variant-pool-left-as-it-was',
                    st.pool.fields['series_obj'] is st.shared_series and st.shared_series.fields['transcriptional'] is st.shared_tx)]
            if st.unit_failed_now is not None:
                out.append(('failed-unit-contributes-no-peptides', len(new_merged) == 0))
                out.append(('failed-unit-stores-no-graph', len(new_writes) == 0))
            else:
                out.append(('only-this-units-peptides-are-merged', all(is_unit(x) for x in new_merged) and len(new_merged) <= 1))
                out.append(('only-this-units-graphs-are-stored', all(is_unit(v) for _, _, v in new_writes)))
            return out
        return step

    @property
    def loops(self):
        return {
            0: LoopSpec(inv=self.unit_inv('fusion'), havoc=self.unit_havoc('fusion'),
                        on_head=self.unit_on_head('fusion'), step=self.unit_step('fusion')),
            1: LoopSpec(inv=self.unit_inv('circ'), havoc=self.unit_havoc('circ'),
                        on_head=self.unit_on_head('circ'), step=self.unit_step('circ')),
        }

    # ------------------------------------------------------------------ post
    def post_return(self, I, st, ret):
        anyfail = z3.Or(as_bool(st.failed['main']), st.failed['fusion'], st.failed['circ'])
        I.e.prove('C07/return/failure-without-skip-failed-never-returns', z3.Implies(anyfail, st.skip_failed))
        flags = ret[4]
        I.e.prove('C07/return/flag-variant-false-iff-main-failed', as_bool(flags[0]) == z3.Not(as_bool(st.failed['main'])))
        I.e.prove('C07/return/flag-fusion-false-iff-a-fusion-failed', as_bool(flags[1]) == z3.Not(st.failed['fusion']))
        I.e.prove('C07/return/flag-circ-false-iff-a-circRNA-failed', as_bool(flags[2]) == z3.Not(st.failed['circ']))
        for u in st.denylist_updates:
            I.e.prove('C07/denylist/extended-only-by-a-successful-main-call', st.main_ok is True)
        main_merged = [x for x in st.merged if isinstance(x, SymObj) and x.fields.get('unit', ('?',))[0] == 'main']
        I.e.prove('C07/return/main-merged-iff-main-succeeded', (len(main_merged) == 1) == bool(st.main_ok))
        I.e.prove('C07/return/shared-variant-pool-left-as-it-was',
                  st.pool.fields['series_obj'] is st.shared_series and st.shared_series.fields['transcriptional'] is st.shared_tx)
        I.e.prove('C07/return/nothing-foreign-merged',
                  all(isinstance(x, SymObj) and x.cls == 'PeptideMap' for x in st.merged))

    def post_raise(self, I, st, exc):
        # with --skip-failed a failing unit must never abort the wrapper; only failures outside the
        # three units (canonical peptides of the transcript itself) may propagate
        unit_failure = st.unit_failed_now is not None if hasattr(st, 'unit_failed_now') else False
        any_unit_failed = z3.Or(as_bool(st.failed['main']), st.failed['fusion'], st.failed['circ'])
        I.e.prove('C07/raise/not-an-unbound-or-stale-local', exc.cls != 'UnboundLocalError')
        I.e.prove('C07/raise/only-a-failing-unit-or-the-canonical-call-may-abort',
                  z3.Or(st.in_canonical, any_unit_failed))
        I.e.prove('C07/raise/unit-failure-aborts-only-without-skip-failed',
                  z3.Not(z3.And(st.skip_failed, any_unit_failed)))


# ----------------------------------------------------------------------------
# Native side: fault injection into the REAL wrapper (bounded stand-in for "the output equals
# the failure-free output minus the failing unit's peptides").  The three per-unit callers are
# wrapped from here, in-process; the repository is not edited.  threads=1 (monkeypatches do not
# cross pathos process boundaries).
# ----------------------------------------------------------------------------
from pyvc.native import NativeCheck
import itertools


class InjectedFailure(RuntimeError):
    pass


class NativeFaultInjection(NativeCheck):
    name = 'fault_injection'
    props = ('C07',)
    functions = (f'{CVP}:call_variant_peptides_wrapper',)
    bounded_for = 'with --skip-failed the output equals the failure-free output minus the failing units; tally; abort without --skip-failed'
    bound = ('demo inputs (vep gSNP+gINDEL, fusion, circRNA, reditools, alternative splicing), threads=1; every single failing unit '
             '(main call of a transcript, a fusion, a circRNA); quick: first 10 singles + 4 pairs; thorough: all singles and 30 pairs')
    quick_budget_s = 150
    thorough_budget_s = 900

    def __init__(self):
        self.base = None

    def _run(self, failing, skip_failed=True):
        """run callVariant with the given units failing; returns (fasta seqs, tally, contributions)"""
        from . import cv_run
        import importlib, sys as _sys
        importlib.import_module('moPepGen.cli')
        M = _sys.modules['moPepGen.cli.call_variant_peptide']
        orig = (M.call_peptide_main, M.call_peptide_fusion, M.call_peptide_circ_rna, M.TallyTable.log)
        contrib = {}
        tally = {}
        def wrap(fn, kind, key):
            def w(*a, **k):
                unit = (kind, key(k))
                if list(unit) in [list(f) for f in failing]:
                    raise InjectedFailure(str(unit))
                r = fn(*a, **k)
                contrib.setdefault(unit, set()).update(str(s) for s in r[0].keys())
                return r
            return w
        M.call_peptide_main = wrap(orig[0], 'main', lambda k: k['tx_id'])
        M.call_peptide_fusion = wrap(orig[1], 'fusion', lambda k: str(k['variant'].id))
        M.call_peptide_circ_rna = wrap(orig[2], 'circ', lambda k: str(k['record'].id))
        def log(self_):
            tally.update(failed=dict(self_.n_transcripts_failed), processed=self_.n_transcripts_processed)
        M.TallyTable.log = log
        try:
            fasta, table = cv_run.run_call_variant(threads=1, skip_failed=skip_failed)
        finally:
            M.call_peptide_main, M.call_peptide_fusion, M.call_peptide_circ_rna, M.TallyTable.log = orig
        return set(fasta.values()), tally, contrib

    def _baseline(self):
        if self.base is None:
            self.base = self._run([])
        return self.base

    def cases(self, rng, tier):
        out, tally, contrib = self._baseline()
        units = sorted(contrib, key=lambda u: (u[0] != 'circ', u[0] != 'fusion', u[1]))
        singles = units if tier == 'thorough' else units[:10]
        for u in singles:
            yield dict(failing=[list(u)], skip_failed=True)
        pairs = list(itertools.combinations(units, 2))
        rng.shuffle(pairs)
        for p in pairs[:30 if tier == 'thorough' else 4]:
            yield dict(failing=[list(x) for x in p], skip_failed=True)
        for u in units[:2] + units[-1:]:
            yield dict(failing=[list(u)], skip_failed=False)

    def check(self, inp):
        out0, tally0, contrib0 = self._baseline()
        failing = [tuple(x) for x in inp['failing']]
        if not inp['skip_failed']:
            from . import cv_run
            import tempfile, shutil, os
            try:
                self._run(failing, skip_failed=False)
            except InjectedFailure:
                return None
            except Exception as ex:
                return dict(observed=f'{type(ex).__name__}: {ex}', expected='the injected failure propagates unchanged')
            return dict(observed='run completed', expected='failure terminates the command')
        try:
            out, tally, contrib = self._run(failing, skip_failed=True)
        except Exception as ex:
            return dict(observed=f'run aborted with {type(ex).__name__}: {ex}', expected='run completes and reports the failure in its tally')
        expect = set()
        for u, seqs in contrib0.items():
            if u not in failing:
                expect |= seqs
        expect &= out0
        main_failed = any(u[0] == 'main' for u in failing)
        if not expect <= out:
            return dict(observed=dict(missing=sorted(expect - out)[:5]), expected='peptides of the other units are kept')
        if not main_failed and out != expect:
            return dict(observed=dict(extra=sorted(out - expect)[:5]), expected='only the failing units\' peptides are absent')
        kinds = {'main': 'variant', 'fusion': 'fusion', 'circ': 'circRNA'}
        for k, name in kinds.items():
            n_tx = len({self._tx_of(u) for u in failing if u[0] == k})
            if tally.get('failed', {}).get(name) != n_tx:
                return dict(observed=dict(tally=tally), expected=f'{name} failures counted once per transcript: {n_tx}')
        return None

    def _tx_of(self, u):
        if u[0] == 'main':
            return u[1]
        if u[0] == 'circ':
            return u[1].split('-')[1] if u[1].startswith('CIRC-') or u[1].startswith('CI-') else u[1]
        return self._fusion_tx().get(u[1], u[1])

    def _fusion_tx(self):
        if not hasattr(self, '_ftx'):
            from . import cv_run
            m = {}
            for line in open(cv_run.DATA / 'fusion/fusion.gvf'):
                if line.startswith('#'):
                    continue
                f = line.rstrip('\n').split('\t')
                tid = [x.split('=')[1] for x in f[7].split(';') if x.startswith('TRANSCRIPT_ID=')]
                m[f[2]] = tid[0] if tid else f[0]
            self._ftx = m
        return self._ftx


NATIVE = [NativeFaultInjection()]


# ----------------------------------------------------------------------------
# the merge closure of the wrapper: add_peptide_anno
# ----------------------------------------------------------------------------
@register
class MergeClosure(Contract):
    """add_peptide_anno(x) merges the peptides of one unit into the result of the transcript: every sequence of x gets an entry, every
    label of x is recorded under its sequence unless that label is already there (first wins, nothing is overwritten or removed)"""
    path, qualname, props = CVP, 'call_variant_peptides_wrapper.add_peptide_anno', ('C07', 'C05', 'C06')
    assumptions = ('the enclosing variable peptide_anno is a dict from sequence to a dict from label to metadata (ghost: every setdefault / '
                   'membership test / store is observed)',)

    def setup(self, I):
        e = I.e
        st = types.SimpleNamespace(setdefaults=[], stores=[], tests=[])
        st.n = e.int('n_sequences')
        e.assume(st.n >= 0)
        st.nlab = z3.Function('n_labels', z3.IntSort(), z3.IntSort())
        zz = lambda i: i if is_z3(i) else z3.IntVal(i)
        c = self

        class Inner:
            def __init__(s_, m):
                s_.m = m

            def sym_contains(s_, I2, key):
                b = I2.e.bool('label_already_recorded')
                st.tests.append((s_.m, key, b))
                return b

            def sym_setitem(s_, I2, key, val):
                st.stores.append((s_.m, key, val))

        class Outer:
            def sym_method(s_, I2, name, a, k):
                if name == 'setdefault' and len(a) == 2 and a[1] == {}:
                    st.setdefaults.append(a[0])
                    return Inner(a[0].fields['m'])
                raise Unsupported(f'peptide_anno.{name}')
        st.outer = Outer()
        x = types.SimpleNamespace()
        x.sym_method = lambda I2, name, a, k: FnView(st.n, lambda m: (SymObj('Seq7', m=zz(m)), FnView(st.nlab(zz(m)), lambda t, m=m: SymObj('Meta7', m=zz(m), t=zz(t), label=SymObj('Label7', m=zz(m), t=zz(t))), tag='metadata')), tag='x.items()') \
            if name == 'items' else (_ for _ in ()).throw(Unsupported(name))
        st.args = [x]
        self._cur = st
        return st

    @property
    def models(self):
        c = self

        def inst(reg):
            f = lambda I: c._cur.outer
            f._is_factory = True
            reg.global_(CVP, 'peptide_anno', f)
        return (inst,)

    def head0(self, I, env, k):
        self._cur.m0 = len(self._cur.setdefaults)

    def step0(self, I, env, k):
        st = self._cur
        new = st.setdefaults[st.m0:]
        return [('k-th-sequence-gets-its-entry-once', len(new) == 1 and z3.is_true(z3.simplify(new[0].fields['m'] == k)))]

    def head1(self, I, env, k):
        st = self._cur
        st.m1 = (len(st.tests), len(st.stores))

    def step1(self, I, env, k):
        st = self._cur
        tests, stores = st.tests[st.m1[0]:], st.stores[st.m1[1]:]
        seq = env['seq']
        ok = len(tests) == 1 and isinstance(tests[0][1], SymObj) and tests[0][1].cls == 'Label7'
        items = [('label-looked-up-once-in-the-entry-of-its-own-sequence', ok)]
        if not ok:
            return items
        m, lab, present = tests[0]
        items.append(('it-is-the-k-th-label-of-this-sequence', z3.And(m == seq.fields['m'], lab.fields['m'] == seq.fields['m'], lab.fields['t'] == k)))
        if stores:
            s0 = stores[0]
            items.append(('recorded-under-its-own-label-only-if-that-label-was-not-there',
                          z3.And(z3.Not(present), len(stores) == 1 and s0[1] is lab and isinstance(s0[2], SymObj) and s0[2].fields.get('label') is lab, s0[0] == seq.fields['m'])))
        else:
            items.append(('left-out-only-if-the-label-was-already-there', present))
        return items

    @property
    def loops(self):
        T = lambda I, env, k: []
        brk = lambda what: (lambda I, env, k: [(what, False)])
        return {0: LoopSpec(inv=T, havoc=lambda I, env, k: None, on_head=self.head0, step=self.step0, on_break=brk('every-sequence-of-the-unit-is-merged'), target_after='unknown',
                            on_exit=lambda I, env, n: [('all-sequences-of-the-unit-were-visited', n == self._cur.n)]),
                1: LoopSpec(inv=T, havoc=lambda I, env, k: None, on_head=self.head1, step=self.step1, on_break=brk('every-label-of-a-sequence-is-merged'), target_after='unknown',
                            on_exit=lambda I, env, n: [('all-labels-of-the-sequence-were-visited', n == self._cur.nlab(env['seq'].fields['m']))])}

    def post_return(self, I, st, ret):
        I.e.prove('C07/merge/returns-nothing', ret is None)
