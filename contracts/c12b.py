"""C12 — genome / proteome / coding-transcript data load back equal to what was saved: every save_X of the index directory writes the file
that load_X reads, the files of different kinds are different files, and filterFasta --index-dir reads the coding transcripts from the
file generateIndex wrote them to."""
from __future__ import annotations
import types
import z3
from pyvc.contract import Contract, register
from pyvc.core import Unsupported
from pyvc.values import *

IDX = 'moPepGen/index.py'
FF = 'moPepGen/cli/filter_fasta.py'
KINDS = ('genome', 'proteome', 'coding_tx')


class _Files:
    """the index directory as a map file name -> pickled object"""
    def __init__(self):
        self.content, self.log = {}, []

    def install(self, reg, owner):
        fs = self

        def truediv(I, o, other):
            if not isinstance(other, str):
                raise Unsupported('file name in the index directory is not a literal')
            return SymObj('DirFile12b', name=other)
        reg.protocol_('DirPath12b', '__truediv__', truediv)
        reg.method_('DirFile12b', 'exists', lambda I, o, a, k: I.e.bool('metadata_file_exists'))
        reg.ext_('open', lambda I, a, k: SymObj('Handle12b', file=a[0], mode=a[1] if len(a) > 1 else k.get('mode', 'r')))

        def dump(I, a, k):
            h = a[1]
            f = h.fields['file']
            I.e.prove('C12/files/pickled-through-a-binary-write-handle-on-a-file-of-the-directory', isinstance(f, SymObj) and f.cls == 'DirFile12b' and h.fields['mode'] == 'wb')
            fs.content[f.fields['name']] = a[0]
            fs.log.append(('dump', f.fields['name']))
        reg.ext_('pickle.dump', dump)

        def load(I, a, k):
            h = a[0]
            f = h.fields['file']
            I.e.prove('C12/files/unpickled-through-a-binary-read-handle-on-a-file-of-the-directory', isinstance(f, SymObj) and f.cls == 'DirFile12b' and h.fields['mode'] == 'rb')
            fs.log.append(('load', f.fields['name']))
            if f.fields['name'] not in fs.content:
                I.raise_('FileNotFoundError', f.fields['name'])
            return fs.content[f.fields['name']]
        reg.ext_('pickle.load', load)
        reg.method_('IndexDir', 'load_metadata', lambda I, o, a, k: SymObj('IndexMetadata12b'))
        reg.method_('IndexDir', 'init_metadata', lambda I, o, a, k: None)


def make_dir(I):
    """an IndexDir built by the real constructor on a symbolic directory path"""
    d = SymObj('IndexDir')
    module, cls, fnode = I.repo.function_node(IDX, 'IndexDir.__init__')
    I.inline(module, cls, fnode, [d, SymObj('DirPath12b')], {}, qualname='IndexDir.__init__')
    return d


class _SaveLoad(Contract):
    """what save_X wrote is what load_X returns; save_X touches no other file"""
    props = ('C12',)
    kind = 'genome'
    path = IDX
    declared_raises = []

    @property
    def qualname(self):
        return f'IndexDir.save_{self.kind}'

    @property
    def models(self):
        return (lambda reg: self._cur_fs.install(reg, self),)

    def setup(self, I):
        st = types.SimpleNamespace()
        st.fs = self._cur_fs
        st.fs.content.clear()
        del st.fs.log[:]
        st.dir = make_dir(I)
        st.others = {}
        for k in KINDS:
            if k != self.kind:
                st.others[k] = SymObj('Saved12b', kind=k)
                I.call_method(st.dir, f'save_{k}', [st.others[k]], {})
        st.obj = SymObj('Saved12b', kind=self.kind)
        st.mark = len(st.fs.log)
        st.args = [st.dir, st.obj]
        self._cur = st
        return st

    def __init__(self):
        super().__init__()
        self._cur_fs = _Files()

    def post_return(self, I, st, ret):
        e = I.e
        new = st.fs.log[st.mark:]
        e.prove(f'C12/files/save_{self.kind}/writes-exactly-one-file', len(new) == 1 and new[0][0] == 'dump')
        back = I.call_method(st.dir, f'load_{self.kind}', [], {})
        e.prove(f'C12/files/load_{self.kind}/returns-what-save_{self.kind}-wrote', back is st.obj)
        for k, o in st.others.items():
            e.prove(f'C12/files/save_{self.kind}/leaves-the-{k}-data-as-saved', I.call_method(st.dir, f'load_{k}', [], {}) is o)


for _k in KINDS:
    register(type(f'SaveLoad_{_k}', (_SaveLoad,), dict(kind=_k)))


@register
class FilterFastaCodingTx(Contract):
    """filterFasta --index-dir takes the coding transcripts from the file generateIndex / IndexDir.save_coding_tx wrote them to"""
    path, qualname, props = FF, 'load_coding_transcripts', ('C12', 'C19')
    declared_raises = []

    def __init__(self):
        super().__init__()
        self._cur_fs = _Files()

    @property
    def models(self):
        return (lambda reg: self._cur_fs.install(reg, self),)

    def setup(self, I):
        st = types.SimpleNamespace()
        st.fs = self._cur_fs
        st.fs.content.clear()
        del st.fs.log[:]
        st.dir = make_dir(I)
        st.saved = {k: SymObj('Saved12b', kind=k) for k in KINDS}
        for k in KINDS:
            I.call_method(st.dir, f'save_{k}', [st.saved[k]], {})
        # every other option of the real filterFasta parser is there with an arbitrary value: which transcripts are coding does not depend on them
        from .lib import parser_dests, real_namespace
        dests = parser_dests('moPepGen.cli.filter_fasta', 'add_subparser_filter_fasta')
        known = {d: I.e.bool(f'option_{d}') for d in dests if d.startswith('keep_')}
        known.update(index_dir=st.dir.fields['path'], annotation_gtf=None)
        st.args = [real_namespace(dests, known)]
        self._cur = st
        return st

    def post_return(self, I, st, ret):
        I.e.prove('C12/files/filterFasta-reads-the-coding-transcripts-generateIndex-saved', ret is st.saved['coding_tx'])


@register
class CreateGtfCopy(Contract):
    """create_gtf_copy(file, symlink): afterwards annotation.gtf of the index directory holds the text of `file` - as a link to it or a copy
    for a .gtf file, as its decompressed lines (every line once, in order) for a .gz file, never a link to a compressed file; any other
    suffix is refused and nothing is written"""
    path, qualname, props = IDX, 'IndexDir.create_gtf_copy', ('C12',)
    declared_raises = ['ValueError']
    assumptions = ('assumed: os.symlink / shutil.copy2 make the target hold the content of the source; gzip.open(.., "rt") yields the decompressed lines',)

    def __init__(self):
        super().__init__()
        self._cur_fs = _Files()

    def setup(self, I):
        e = I.e
        st = types.SimpleNamespace(log=[])
        st.fs = self._cur_fs
        st.fs.content.clear()
        del st.fs.log[:]
        st.dir = make_dir(I)
        st.suffix = ['.gtf', '.GTF', '.gz', '.txt'][e.choose(4, 'suffix of the GTF file')]
        st.n = e.int('n_lines')
        e.assume(st.n >= 0)
        st.file = SymObj('SrcFile12b', suffix=st.suffix)
        st.symlink = e.bool('symlink')
        st.args = [st.dir, st.file]
        st.kwargs = dict(symlink=st.symlink)
        self._cur = st
        return st

    @property
    def models(self):
        c = self

        def inst(reg):
            c._cur_fs.install(reg, c)
            reg.method_('SrcFile12b', 'absolute', lambda I, o, a, k: SymObj('AbsPath12b', of=o))
            reg.ext_('os.symlink', lambda I, a, k: c._cur.log.append(('symlink', a[0], a[1])))
            reg.ext_('shutil.copy2', lambda I, a, k: c._cur.log.append(('copy', a[0], a[1])))
            reg.ext_('shutil.copy', lambda I, a, k: c._cur.log.append(('copy', a[0], a[1])))
            reg.ext_('shutil.copyfile', lambda I, a, k: c._cur.log.append(('copy', a[0], a[1])))
            zz = lambda i: i if is_z3(i) else z3.IntVal(i)

            class GzIn:
                def sym_view(s_, I2):
                    c._cur.log.append(('read-lines', None, None))
                    return FnView(c._cur.n, lambda i: SymObj('GzLine12b', i=zz(i)), tag='decompressed lines')
            reg.ext_('gzip.open', lambda I, a, k: (c._cur.log.append(('gzip.open', a[0], a[1] if len(a) > 1 else k.get('mode'))), GzIn())[1])

            class Out:
                def __init__(s_, f):
                    s_.f = f

                def sym_method(s_, I2, name, a, k):
                    if name == 'write':
                        c._cur.log.append(('write', s_.f, a[0]))
                        return None
                    raise Unsupported(f'handle.{name}')
            reg.ext_('open', lambda I, a, k: (c._cur.log.append(('open', a[0], a[1] if len(a) > 1 else k.get('mode'))), Out(a[0]))[1])
        return (inst,)

    def head(self, I, env, k):
        self._cur.mark = len(self._cur.log)

    def step(self, I, env, k):
        st = self._cur
        w = [x for x in st.log[st.mark:] if x[0] == 'write']
        ok = len(w) == 1 and isinstance(w[0][2], SymObj) and w[0][2].cls == 'GzLine12b' and w[0][1] is st.dir.fields['annotation_file']
        return [('line-k-written-once-unchanged-to-the-annotation-file', w[0][2].fields['i'] == k if ok else False)]

    @property
    def loops(self):
        from pyvc.interp import LoopSpec
        return {0: LoopSpec(inv=lambda I, env, k: [], on_head=self.head, step=self.step, target_after='unknown',
                            on_break=lambda I, env, k: [('every-line-is-copied', False)],
                            on_exit=lambda I, env, n: [('all-lines-were-copied', n == self._cur.n)])}

    def post_return(self, I, st, ret):
        e = I.e
        target = st.dir.fields['annotation_file']
        kinds = [x[0] for x in st.log]
        low = st.suffix.lower()
        e.prove('C12/gtf-copy/only-gtf-and-gz-files-are-accepted', low in ('.gtf', '.gz'))
        if 'symlink' in kinds:
            x = st.log[kinds.index('symlink')]
            e.prove('C12/gtf-copy/link-only-to-an-uncompressed-file-when-asked-from-the-absolute-source-to-the-annotation-file',
                    z3.And(st.symlink) if low == '.gtf' and isinstance(x[1], SymObj) and x[1].cls == 'AbsPath12b' and x[1].fields['of'] is st.file and x[2] is target and kinds.count('symlink') == 1
                    and 'copy' not in kinds and 'write' not in kinds else False)
        elif 'copy' in kinds:
            x = st.log[kinds.index('copy')]
            e.prove('C12/gtf-copy/copy-of-the-uncompressed-source-to-the-annotation-file-when-no-link-is-asked',
                    z3.Not(st.symlink) if low == '.gtf' and x[1] is st.file and x[2] is target and kinds.count('copy') == 1 and 'write' not in kinds else False)
        else:
            o = [x for x in st.log if x[0] == 'open']
            g = [x for x in st.log if x[0] == 'gzip.open']
            e.prove('C12/gtf-copy/compressed-source-decompressed-line-by-line-into-the-annotation-file',
                    low == '.gz' and len(o) == 1 and o[0][1] is target and o[0][2] in ('wt', 'w') and len(g) == 1 and g[0][1] is st.file and g[0][2] == 'rt')

    def post_raise(self, I, st, exc):
        I.e.prove('C12/gtf-copy/raise/only-for-another-suffix-and-nothing-written', exc.cls == 'ValueError' and st.suffix.lower() not in ('.gtf', '.gz') and not st.log)


NATIVE = []
