"""C12 — genome / proteome / coding-transcript data load back equal to what was saved: every save_X of the index directory writes the file
that load_X reads, the files of different kinds are different files, and filterFasta --index-dir reads the coding transcripts from the
file generateIndex wrote them to."""
from __future__ import annotations
import types
import z3
from pyvc.contract import Contract, register
from pyvc.core import Unsupported
from pyvc.values import *

IDX = 'moPepGen/index.py'
FF = 'moPepGen/cli/filter_fasta.py'
KINDS = ('genome', 'proteome', 'coding_tx')


class _Files:
    """the index directory as a map file name -> pickled object"""
    def __init__(self):
        self.content, self.log = {}, []

    def install(self, reg, owner):
        fs = self

        def truediv(I, o, other):
            if not isinstance(other, str):
                raise Unsupported('file name in the index directory is not a literal')
            return SymObj('DirFile12b', name=other)
        reg.protocol_('DirPath12b', '__truediv__', truediv)
        reg.method_('DirFile12b', 'exists', lambda I, o, a, k: I.e.bool('metadata_file_exists'))
        reg.ext_('open', lambda I, a, k: SymObj('Handle12b', file=a[0], mode=a[1] if len(a) > 1 else k.get('mode', 'r')))

        def dump(I, a, k):
            h = a[1]
            f = h.fields['file']
            I.e.prove('C12/files/pickled-through-a-binary-write-handle-on-a-file-of-the-directory', isinstance(f, SymObj) and f.cls == 'DirFile12b' and h.fields['mode'] == 'wb')
            fs.content[f.fields['name']] = a[0]
            fs.log.append(('dump', f.fields['name']))
        reg.ext_('pickle.dump', dump)

        def load(I, a, k):
            h = a[0]
            f = h.fields['file']
            I.e.prove('C12/files/unpickled-through-a-binary-read-handle-on-a-file-of-the-directory', isinstance(f, SymObj) and f.cls == 'DirFile12b' and h.fields['mode'] == 'rb')
            fs.log.append(('load', f.fields['name']))
            if f.fields['name'] not in fs.content:
                I.raise_('FileNotFoundError', f.fields['name'])
            return fs.content[f.fields['name']]
        reg.ext_('pickle.load', load)
        reg.method_('IndexDir', 'load_metadata', lambda I, o, a, k: SymObj('IndexMetadata12b'))
        reg.method_('IndexDir', 'init_metadata', lambda I, o, a, k: None)


def make_dir(I):
    """an IndexDir built by the real constructor on a symbolic directory path"""
    d = SymObj('IndexDir')
    module, cls, fnode = I.repo.function_node(IDX, 'IndexDir.__init__')
    I.inline(module, cls, fnode, [d, SymObj('DirPath12b')], {}, qualname='IndexDir.__init__')
    return d


class _SaveLoad(Contract):
    """what save_X wrote is what load_X returns; save_X touches no other file"""
    props = ('C12',)
    kind = 'genome'
    path = IDX
    declared_raises = []

    @property
    def qualname(self):
        return f'IndexDir.save_{self.kind}'

    @property
    def models(self):
        return (lambda reg: self._cur_fs.install(reg, self),)

    def setup(self, I):
        st = types.SimpleNamespace()
        st.fs = self._cur_fs
        st.fs.content.clear()
        del st.fs.log[:]
        st.dir = make_dir(I)
        st.others = {}
        for k in KINDS:
            if k != self.kind:
                st.others[k] = SymObj('Saved12b', kind=k)
                I.call_method(st.dir, f'save_{k}', [st.others[k]], {})
        st.obj = SymObj('Saved12b', kind=self.kind)
        st.mark = len(st.fs.log)
        st.args = [st.dir, st.obj]
        self._cur = st
        return st

    def __init__(self):
        super().__init__()
        self._cur_fs = _Files()

    def post_return(self, I, st, ret):
        e = I.e
        new = st.fs.log[st.mark:]
        e.prove(f'C12/files/save_{self.kind}/writes-exactly-one-file', len(new) == 1 and new[0][0] == 'dump')
        back = I.call_method(st.dir, f'load_{self.kind}', [], {})
        e.prove(f'C12/files/load_{self.kind}/returns-what-save_{self.kind}-wrote', back is st.obj)
        for k, o in st.others.items():
            e.prove(f'C12/files/save_{self.kind}/leaves-the-{k}-data-as-saved', I.call_method(st.dir, f'load_{k}', [], {}) is o)


for _k in KINDS:
    register(type(f'SaveLoad_{_k}', (_SaveLoad,), dict(kind=_k)))


@register
class FilterFastaCodingTx(Contract):
    """filterFasta --index-dir takes the coding transcripts from the file generateIndex / IndexDir.save_coding_tx wrote them to"""
    path, qualname, props = FF, 'load_coding_transcripts', ('C12', 'C19')
    declared_raises = []

    def __init__(self):
        super().__init__()
        self._cur_fs = _Files()

    @property
    def models(self):
        return (lambda reg: self._cur_fs.install(reg, self),)

    def setup(self, I):
        st = types.SimpleNamespace()
        st.fs = self._cur_fs
        st.fs.content.clear()
        del st.fs.log[:]
        st.dir = make_dir(I)
        st.saved = {k: SymObj('Saved12b', kind=k) for k in KINDS}
        for k in KINDS:
            I.call_method(st.dir, f'save_{k}', [st.saved[k]], {})
        # every other option of the real filterFasta parser is there with an arbitrary value: which transcripts are coding does not depend on them
        from .lib import parser_dests, real_namespace
        dests = parser_dests('moPepGen.cli.filter_fasta', 'add_subparser_filter_fasta')
        known = {d: I.e.bool(f'option_{d}') for d in dests if d.startswith('keep_')}
        known.update(index_dir=st.dir.fields['path'], annotation_gtf=None)
        st.args = [real_namespace(dests, known)]
        self._cur = st
        return st

    def post_return(self, I, st, ret):
        I.e.prove('C12/files/filterFasta-reads-the-coding-transcripts-generateIndex-saved', ret is st.saved['coding_tx'])


@register
class CreateGtfCopy(Contract):
    """create_gtf_copy(file, symlink): afterwards annotation.gtf of the index directory holds the text of `file` - as a link to it or a copy
    for a .gtf file, as its decompressed lines (every line once, in order) for a .gz file, never a link to a compressed file; any other
    suffix is refused and nothing is written"""
    path, qualname, props = IDX, 'IndexDir.create_gtf_copy', ('C12',)
    declared_raises = ['ValueError']
    assumptions = ('assumed: os.symlink / shutil.copy2 make the target hold the content of the source; gzip.open(.., "rt") yields the decompressed lines',)

    def __init__(self):
        super().__init__()
        self._cur_fs = _Files()

    def setup(self, I):
        e = I.e
        st = types.SimpleNamespace(log=[])
        st.fs = self._cur_fs
        st.fs.content.clear()
        del st.fs.log[:]
        st.dir = make_dir(I)
        st.suffix = ['.gtf', '.GTF', '.gz', '.txt'][e.choose(4, 'suffix of the GTF file')]
        st.n = e.int('n_lines')
        e.assume(st.n >= 0)
        st.file = SymObj('SrcFile12b', suffix=st.suffix)
        st.symlink = e.bool('symlink')
        st.args = [st.dir, st.file]
        st.kwargs = dict(symlink=st.symlink)
        self._cur = st
        return st

    @property
    def models(self):
        c = self

        def inst(reg):
            c._cur_fs.install(reg, c)
            reg.method_('SrcFile12b', 'absolute', lambda I, o, a, k: SymObj('AbsPath12b', of=o))
            reg.ext_('os.symlink', lambda I, a, k: c._cur.log.append(('symlink', a[0], a[1])))
            reg.ext_('shutil.copy2', lambda I, a, k: c._cur.log.append(('copy', a[0], a[1])))
            reg.ext_('shutil.copy', lambda I, a, k: c._cur.log.append(('copy', a[0], a[1])))
            reg.ext_('shutil.copyfile', lambda I, a, k: c._cur.log.append(('copy', a[0], a[1])))
            zz = lambda i: i if is_z3(i) else z3.IntVal(i)

            class GzIn:
                def sym_view(s_, I2):
                    c._cur.log.append(('read-lines', None, None))
                    return FnView(c._cur.n, lambda i: SymObj('GzLine12b', i=zz(i)), tag='decompressed lines')
            reg.ext_('gzip.open', lambda I, a, k: (c._cur.log.append(('gzip.open', a[0], a[1] if len(a) > 1 else k.get('mode'))), GzIn())[1])

            class Out:
                def __init__(s_, f):
                    s_.f = f

                def sym_method(s_, I2, name, a, k):
                    if name == 'write':
                        c._cur.log.append(('write', s_.f, a[0]))
                        return None
                    raise Unsupported(f'handle.{name}')
            reg.ext_('open', lambda I, a, k: (c._cur.log.append(('open', a[0], a[1] if len(a) > 1 else k.get('mode'))), Out(a[0]))[1])
        return (inst,)

    def head(self, I, env, k):
        self._cur.mark = len(self._cur.log)

    def step(self, I, env, k):
        st = self._cur
        w = [x for x in st.log[st.mark:] if x[0] == 'write']
        ok = len(w) == 1 and isinstance(w[0][2], SymObj) and w[0][2].cls == 'GzLine12b' and w[0][1] is st.dir.fields['annotation_file']
        return [('line-k-written-once-unchanged-to-the-annotation-file', w[0][2].fields['i'] == k if ok else False)]

    @property
    def loops(self):
        from pyvc.interp import LoopSpec
        return {0: LoopSpec(inv=lambda I, env, k: [], on_head=self.head, step=self.step, target_after='unknown',
                            on_break=lambda I, env, k: [('every-line-is-copied', False)],
                            on_exit=lambda I, env, n: [('all-lines-were-copied', n == self._cur.n)])}

    def post_return(self, I, st, ret):
        e = I.e
        target = st.dir.fields['annotation_file']
        kinds = [x[0] for x in st.log]
        low = st.suffix.lower()
        e.prove('C12/gtf-copy/only-gtf-and-gz-files-are-accepted', low in ('.gtf', '.gz'))
        if 'symlink' in kinds:
            x = st.log[kinds.index('symlink')]
            e.prove('C12/gtf-copy/link-only-to-an-uncompressed-file-when-asked-from-the-absolute-source-to-the-annotation-file',
                    z3.And(st.symlink) if low == '.gtf' and isinstance(x[1], SymObj) and x[1].cls == 'AbsPath12b' and x[1].fields['of'] is st.file and x[2] is target and kinds.count('symlink') == 1
                    and 'copy' not in kinds and 'write' not in kinds else False)
        elif 'copy' in kinds:
            x = st.log[kinds.index('copy')]
            e.prove('C12/gtf-copy/copy-of-the-uncompressed-source-to-the-annotation-file-when-no-link-is-asked',
                    z3.Not(st.symlink) if low == '.gtf' and x[1] is st.file and x[2] is target and kinds.count('copy') == 1 and 'write' not in kinds else False)
        else:
            o = [x for x in st.log if x[0] == 'open']
            g = [x for x in st.log if x[0] == 'gzip.open']
            e.prove('C12/gtf-copy/compressed-source-decompressed-line-by-line-into-the-annotation-file',
                    low == '.gz' and len(o) == 1 and o[0][1] is target and o[0][2] in ('wt', 'w') and len(g) == 1 and g[0][1] is st.file and g[0][2] == 'rt')

    def post_raise(self, I, st, exc):
        I.e.prove('C12/gtf-copy/raise/only-for-another-suffix-and-nothing-written', exc.cls == 'ValueError' and st.suffix.lower() not in ('.gtf', '.gz') and not st.log)


NATIVE = []


# ----------------------------------------------------------------------------
# the metadata of the directory: constructor, fresh metadata, saving
# ----------------------------------------------------------------------------
class _IndexDirInit(Contract):
    """IndexDir(path): the five files of the directory get their fixed names under the given path (five different names); the metadata is read from
    metadata.json iff that file exists, and is a fresh one (current versions, no pools) otherwise"""
    path, qualname, props = IDX, 'IndexDir.__init__', ('C12',)
    exists = True

    def name(self):
        return f'{self.path}:{self.qualname}[metadata.json {"exists" if self.exists else "does not exist"}]'

    def setup(self, I):
        st = types.SimpleNamespace(log=[])
        st.dir = SymObj('IndexDir')
        st.args = [st.dir, SymObj('DirPath12c')]
        self._cur = st
        return st

    @property
    def models(self):
        c = self

        def inst(reg):
            def truediv(I, o, other):
                if not isinstance(other, str):
                    raise Unsupported('file name in the index directory is not a literal')
                return SymObj('DirFile12c', name=other)
            reg.protocol_('DirPath12c', '__truediv__', truediv)
            reg.method_('DirFile12c', 'exists', lambda I, o, a, k: (c._cur.log.append(('exists', o.fields['name'])), c.exists)[1])
            reg.method_('IndexDir', 'load_metadata', lambda I, o, a, k: (c._cur.log.append(('load', None)), SymObj('LoadedMetadata12c'))[1])
            reg.method_('IndexDir', 'init_metadata', lambda I, o, a, k: (c._cur.log.append(('init', None)), o.fields.__setitem__('metadata', SymObj('FreshMetadata12c')))[1])
        return (inst,)

    def post_return(self, I, st, ret):
        f = st.dir.fields
        names = {a: (f[a].fields['name'] if isinstance(f.get(a), SymObj) and f[a].cls == 'DirFile12c' else None)
                 for a in ('genome_file', 'annotation_file', 'proteome_file', 'coding_tx_file', 'metadata_file')}
        I.e.prove('C12/dir/five-files-with-five-different-fixed-names-under-the-given-path',
                  z3.BoolVal(None not in names.values() and len(set(names.values())) == 5 and names['metadata_file'] == 'metadata.json'))
        kinds = [x[0] for x in st.log]
        asked = [x for x in st.log if x[0] == 'exists']
        I.e.prove('C12/dir/existence-asked-of-the-metadata-file', z3.BoolVal(len(asked) == 1 and asked[0][1] == 'metadata.json'))
        md = f.get('metadata')
        if self.exists:
            I.e.prove('C12/dir/an-existing-metadata-file-is-loaded-and-not-replaced', z3.BoolVal(kinds.count('load') == 1 and 'init' not in kinds and isinstance(md, SymObj) and md.cls == 'LoadedMetadata12c'))
        else:
            I.e.prove('C12/dir/without-a-metadata-file-the-metadata-is-fresh', z3.BoolVal(kinds.count('init') == 1 and 'load' not in kinds and isinstance(md, SymObj) and md.cls == 'FreshMetadata12c'))


register(type('IndexDirInitExists', (_IndexDirInit,), dict(exists=True, __doc__=_IndexDirInit.__doc__)))
register(type('IndexDirInitFresh', (_IndexDirInit,), dict(exists=False, __doc__=_IndexDirInit.__doc__)))


@register
class InitMetadata(Contract):
    """IndexDir.init_metadata(): the metadata becomes a fresh one - the versions of the running environment (MetaVersion()), no canonical pools, no source"""
    path, qualname, props = IDX, 'IndexDir.init_metadata', ('C12',)

    def setup(self, I):
        st = types.SimpleNamespace()
        st.dir = SymObj('IndexDir', metadata=SymObj('OldMetadata12c'))
        st.args = [st.dir]
        self._cur = st
        return st

    @property
    def models(self):
        def inst(reg):
            reg.ctor_('MetaVersion', lambda I, a, k: SymObj('CurrentVersion12c') if not a and not k else SymObj('OtherVersion12c'))
            reg.ctor_('IndexMetadata', lambda I, a, k: SymObj('IndexMetadata12c', args=list(a), **k))
        return (inst,)

    def post_return(self, I, st, ret):
        md = st.dir.fields.get('metadata')
        ok = isinstance(md, SymObj) and md.cls == 'IndexMetadata12c' and not md.fields.get('args')
        f = md.fields if ok else {}
        I.e.prove('C12/init_metadata/current-versions-no-pools-no-source',
                  z3.BoolVal(bool(ok and isinstance(f.get('version'), SymObj) and f['version'].cls == 'CurrentVersion12c' and f.get('canonical_pools') == [] and f.get('source', 'missing') is None)))


@register
class SaveMetadata(Contract):
    """IndexDir.save_metadata(): what jsonfy() of the current metadata gives (under its own contract) is dumped as JSON, once, into metadata.json opened
    for writing as text - the file load_metadata and the constructor read"""
    path, qualname, props = IDX, 'IndexDir.save_metadata', ('C12',)
    assumptions = ('assumed: json.dump(data, handle) writes data to the file of the handle',)

    def setup(self, I):
        st = types.SimpleNamespace(log=[])
        st.file = SymObj('MetadataFile12c')
        st.data = SymObj('JsonData12c')
        st.dir = SymObj('IndexDir', metadata=SymObj('Metadata12c'), metadata_file=st.file, genome_file=SymObj('OtherFile12c'))
        st.args = [st.dir]
        self._cur = st
        return st

    @property
    def models(self):
        c = self

        def inst(reg):
            reg.method_('Metadata12c', 'jsonfy', lambda I, o, a, k: (c._cur.log.append(('jsonfy', None, None)), c._cur.data)[1])
            reg.ext_('open', lambda I, a, k: (c._cur.log.append(('open', a[0], a[1] if len(a) > 1 else k.get('mode', 'r'))), SymObj('Handle12c', file=a[0]))[1])
            reg.method_('Handle12c', '__enter__', lambda I, o, a, k: o)
            reg.method_('Handle12c', '__exit__', lambda I, o, a, k: None)
            reg.ext_('json.dump', lambda I, a, k: c._cur.log.append(('dump', a[0], a[1] if len(a) > 1 else k.get('fp'))))
        return (inst,)

    def post_return(self, I, st, ret):
        opens = [x for x in st.log if x[0] == 'open']
        dumps = [x for x in st.log if x[0] == 'dump']
        I.e.prove('C12/save_metadata/metadata.json-opened-once-for-writing-text', z3.BoolVal(len(opens) == 1 and opens[0][1] is st.file and opens[0][2] in ('w', 'wt')))
        I.e.prove('C12/save_metadata/the-jsonfied-metadata-dumped-once-into-that-file',
                  z3.BoolVal(len(dumps) == 1 and dumps[0][1] is st.data and isinstance(dumps[0][2], SymObj) and dumps[0][2].fields.get('file') is st.file))


# ----------------------------------------------------------------------------
# the annotation of the directory: copy, index files, loading
# ----------------------------------------------------------------------------
from pyvc.interp import LoopSpec


class _PtrDict12c:
    """anno.genes / anno.transcripts of the on-disk annotation: n keys, a pointer per key"""
    def __init__(self, st, kind):
        self.st, self.kind = st, kind

    def n(self):
        return self.st.ng if self.kind == 'gene' else self.st.nt

    def sym_method(self, I, name, a, k):
        zz = lambda i: i if is_z3(i) else z3.IntVal(i)
        if name == 'keys' and not a:
            return FnView(self.n(), lambda i: SymObj('Key12c', kind=self.kind, i=zz(i)), tag=f'{self.kind} ids of the annotation')
        if name == 'get_pointer' and len(a) == 1 and isinstance(a[0], SymObj) and a[0].cls == 'Key12c' and a[0].fields['kind'] == self.kind:
            return SymObj('Pointer12c', kind=self.kind, i=a[0].fields['i'])
        raise Unsupported(f'{self.kind} pointer table.{name}')


class _Line12c:
    def __init__(self, kind, i):
        self.kind, self.i = kind, i

    def sym_str(self, I):
        return self


@register
class SaveAnnotation(Contract):
    """IndexDir.save_annotation(file, source, proteome, ...): the GTF is copied / linked into the directory first (create_gtf_copy, under its own contract,
    with the symlink choice given); the index is generated from the copy inside the directory with the given source; coding status is checked against the
    proteome iff one is given, with the flag given; the gene index file gets exactly one line per gene - its pointer printed by to_line plus a line break -
    in annotation order, the transcript index file likewise one line per transcript; both are the files get_index_files names for the copy; the annotation
    is returned"""
    path, qualname, props = IDX, 'IndexDir.save_annotation', ('C12',)
    with_proteome = True

    def name(self):
        return f'{self.path}:{self.qualname}[{"with" if self.with_proteome else "without"} a proteome]'

    def setup(self, I):
        e = I.e
        st = types.SimpleNamespace(log=[])
        st.ng, st.nt = e.int('n_genes'), e.int('n_transcripts')
        e.assume(z3.And(st.ng >= 0, st.nt >= 0))
        st.copy = SymObj('AnnotationFile12c')
        st.src_file, st.source, st.flag, st.symlink = SymObj('GivenGtf12c'), SymObj('Source12c'), e.bool('invalid_protein_as_noncoding'), e.bool('symlink')
        st.proteome = SymObj('Proteome12c') if self.with_proteome else None
        st.gene_idx, st.tx_idx = SymObj('IdxFile12c', which='gene'), SymObj('IdxFile12c', which='tx')
        st.dir = SymObj('IndexDir', annotation_file=st.copy, metadata=SymObj('Metadata12c2', source=st.source))
        st.args = [st.dir, st.src_file]
        st.kwargs = dict(source=st.source, proteome=st.proteome, invalid_protein_as_noncoding=st.flag, symlink=st.symlink)
        self._cur = st
        return st

    @property
    def models(self):
        c = self

        def inst(reg):
            L = lambda *x: c._cur.log.append(x)
            reg.method_('IndexDir', 'create_gtf_copy', lambda I, o, a, k: L('copy', list(a), dict(k)))
            reg.ctor_('GenomicAnnotationOnDisk', lambda I, a, k: SymObj('AnnoOnDisk12c', genes=_PtrDict12c(c._cur, 'gene'), transcripts=_PtrDict12c(c._cur, 'tx')))
            reg.method_('AnnoOnDisk12c', 'generate_index', lambda I, o, a, k: L('generate_index', list(a), dict(k)))
            reg.method_('AnnoOnDisk12c', 'check_protein_coding', lambda I, o, a, k: L('check', list(a), dict(k)))
            reg.method_('AnnoOnDisk12c', 'get_index_files', lambda I, o, a, k: (L('index_files', list(a), dict(k)), (c._cur.gene_idx, c._cur.tx_idx))[1])
            reg.method_('Pointer12c', 'to_line', lambda I, o, a, k: _Line12c(o.fields['kind'], o.fields['i']))
            reg.ext_('open', lambda I, a, k: (L('open', a[0], a[1] if len(a) > 1 else k.get('mode', 'r')), SymObj('IdxHandle12c', file=a[0]))[1])
            reg.method_('IdxHandle12c', '__enter__', lambda I, o, a, k: o)
            reg.method_('IdxHandle12c', '__exit__', lambda I, o, a, k: None)
            reg.method_('IdxHandle12c', 'write', lambda I, o, a, k: L('write', o.fields['file'], a[0]))
        return (inst,)

    def head(self, I, env, k):
        self._cur.mark = len(self._cur.log)

    def mk_step(self, kind):
        def step(I, env, k):
            st = self._cur
            new = st.log[st.mark:]
            target = st.gene_idx if kind == 'gene' else st.tx_idx
            ok = len(new) == 1 and new[0][0] == 'write' and new[0][1] is target
            v = new[0][2] if ok else None
            ok = ok and isinstance(v, OpaqueStr) and len(v.parts) == 2 and isinstance(v.parts[0], _Line12c) and v.parts[1] == '\n' and v.parts[0].kind == kind
            return [(f'{kind}-k-written-once-as-the-line-of-its-own-pointer-with-a-line-break-into-the-{kind}-index-file', v.parts[0].i == k if ok else False)]
        return step

    @property
    def loops(self):
        mk = lambda kind, n: LoopSpec(inv=lambda I, env, k: [], on_head=self.head, step=self.mk_step(kind), target_after='unknown',
                                      on_break=lambda I, env, k: [('every-entry-is-visited', False)],
                                      on_exit=lambda I, env, m: [('all-entries-were-written', m == n())])
        return {0: mk('gene', lambda: self._cur.ng), 1: mk('tx', lambda: self._cur.nt)}

    def post_return(self, I, st, ret):
        e = I.e
        ev = [x for x in st.log if x[0] != 'write']
        kinds = [x[0] for x in ev]
        want = ['copy', 'generate_index'] + (['check'] if self.with_proteome else []) + ['index_files', 'open', 'open']
        e.prove('C12/save_annotation/copy-then-index-then-coding-check-iff-a-proteome-then-the-two-index-files', z3.BoolVal(kinds == want))
        if kinds != want:
            return
        cp = ev[0]
        e.prove('C12/save_annotation/the-given-file-is-copied-with-the-given-symlink-choice', z3.BoolVal(cp[1][:1] == [st.src_file] and (cp[2].get('symlink', cp[1][1] if len(cp[1]) > 1 else None) is st.symlink)))
        gi = ev[1]
        e.prove('C12/save_annotation/index-generated-from-the-copy-inside-the-directory-with-the-given-source',
                z3.BoolVal(gi[1][:1] == [st.copy] and (gi[1][1] if len(gi[1]) > 1 else gi[2].get('source')) is st.source))
        if self.with_proteome:
            ck = ev[2]
            e.prove('C12/save_annotation/coding-status-checked-against-the-given-proteome-with-the-given-flag',
                    z3.BoolVal(ck[1][:1] == [st.proteome] and (ck[1][1] if len(ck[1]) > 1 else ck[2].get('invalid_protein_as_noncoding')) is st.flag))
        fi = ev[-3]
        e.prove('C12/save_annotation/index-file-names-asked-for-the-copy', z3.BoolVal(fi[1][:1] == [st.copy]))
        e.prove('C12/save_annotation/gene-index-file-then-transcript-index-file-opened-for-writing',
                z3.BoolVal(ev[-2][1] is st.gene_idx and ev[-1][1] is st.tx_idx and ev[-2][2] in ('w', 'wt') and ev[-1][2] in ('w', 'wt')))
        e.prove('C12/save_annotation/the-indexed-annotation-is-returned', z3.BoolVal(isinstance(ret, SymObj) and ret.cls == 'AnnoOnDisk12c'))


register(type('SaveAnnotationNoProteome', (SaveAnnotation,), dict(with_proteome=False, __doc__=SaveAnnotation.__doc__)))


@register
class LoadAnnotation(Contract):
    """IndexDir.load_annotation(): an on-disk annotation on the GTF copy of the directory: its handle opened on that file and its index loaded for that
    file with the source recorded in the metadata"""
    path, qualname, props = IDX, 'IndexDir.load_annotation', ('C12',)

    def setup(self, I):
        st = types.SimpleNamespace(log=[])
        st.copy, st.source = SymObj('AnnotationFile12c'), SymObj('Source12c')
        st.dir = SymObj('IndexDir', annotation_file=st.copy, genome_file=SymObj('Other12c'), metadata=SymObj('Metadata12c2', source=st.source))
        st.args = [st.dir]
        self._cur = st
        return st

    @property
    def models(self):
        c = self

        def inst(reg):
            L = lambda *x: c._cur.log.append(x)
            reg.ctor_('GenomicAnnotationOnDisk', lambda I, a, k: SymObj('AnnoOnDisk12c'))
            reg.method_('AnnoOnDisk12c', 'init_handle', lambda I, o, a, k: L('init_handle', list(a), dict(k)))
            reg.method_('AnnoOnDisk12c', 'load_index', lambda I, o, a, k: L('load_index', list(a), dict(k)))
        return (inst,)

    def post_return(self, I, st, ret):
        ok = [x[0] for x in st.log] == ['init_handle', 'load_index']
        ok = ok and st.log[0][1][:1] == [st.copy] and st.log[1][1][:1] == [st.copy] and (st.log[1][2].get('source', st.log[1][1][1] if len(st.log[1][1]) > 1 else None) is st.source)
        I.e.prove('C12/load_annotation/handle-and-index-of-the-GTF-copy-with-the-recorded-source', z3.BoolVal(bool(ok and isinstance(ret, SymObj) and ret.cls == 'AnnoOnDisk12c')))
