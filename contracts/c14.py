"""C14 — parseVEP / parseREDItools preserve the genomic event (DESIGN.md §3 C14)."""
from __future__ import annotations
import types
import z3
from pyvc.contract import Contract, Lemma, register
from pyvc.core import Unsupported, as_bool
from pyvc.interp import LoopSpec, PyRaise
from pyvc.values import *
from pyvc.pstr import PStr, COMP, comp_axioms, cmpl
from .lib import *
from .c11 import mk_gene_tagged, g2gene_val

VEP = 'moPepGen/parser/VEPParser.py'
RED = 'moPepGen/parser/REDItoolsParser.py'
I_, B_ = z3.IntSort(), z3.BoolSort()
DASH = ord('-')


# ----------------------------------------------------------------------------
# symbolic VEP "Location" column:  chr:a   or   chr:a-b
# ----------------------------------------------------------------------------
class IntStr:
    """a decimal string whose value is the z3 Int `v` (str <-> int are inverse: assumed)"""
    def __init__(self, v):
        self.v = v

    def sym_int(self, I):
        return self.v


class PosStr:
    def __init__(self, has_dash, a, b, dashpos):
        self.has_dash, self.a, self.b, self.dashpos = has_dash, a, b, dashpos

    def sym_method(self, I, name, args, kwargs):
        if name == 'find' and args == ['-']:
            return z3.If(self.has_dash, self.dashpos, z3.IntVal(-1))
        if name == 'split' and args == ['-']:
            if I.e.branch(self.has_dash, 'location has a dash'):
                return [IntStr(self.a), IntStr(self.b)]
            return [IntStr(self.a)]
        raise Unsupported(f'PosStr.{name}')

    def sym_int(self, I):
        if I.e.branch(self.has_dash, 'location has a dash'):
            I.raise_('ValueError', 'invalid literal for int()')
        return self.a


class LocStr:
    def __init__(self, pos):
        self.pos = pos

    def sym_method(self, I, name, args, kwargs):
        if name == 'split' and args == [':']:
            return [OpaqueStr(['chrom']), self.pos]
        raise Unsupported(f'LocStr.{name}')

    def sym_str(self, I):
        return OpaqueStr(['location'])


class TagList:
    def __init__(self, nf):
        self.nf = nf

    def sym_contains(self, I, item):
        if item == 'cds_start_NF':
            return self.nf
        raise Unsupported(f'tag {item!r}')


def seq_record(seq):
    return SymObj('DNASeqRecord', seq=seq, id='chr1', name='chr1', description='chr1')


def install_seq_models(reg):
    # Bio.Seq.Seq(x) of a str: same content (assumed); SeqRecord.__init__ stores its arguments
    reg.ext_('Bio.Seq.Seq', lambda I, a, k: PStr.of(a[0]))
    reg.ctor_('Seq', lambda I, a, k: PStr.of(a[0]))

    def rec_ctor(cls):
        def ctor(I, a, k):
            seq = k.get('seq', a[0] if a else None)
            return SymObj(cls, seq=seq, locations=k.get('locations', []), orf=k.get('orf'), selenocysteine=k.get('selenocysteine', []),
                          id='<unknown id>', name='<unknown name>', description='<unknown description>')
        return ctor
    reg.ctor_('DNASeqRecordWithCoordinates', rec_ctor('DNASeqRecordWithCoordinates'))
    reg.ctor_('DNASeqRecord', rec_ctor('DNASeqRecord'))


@register
class VepConvert(Contract):
    path, qualname, props = VEP, 'VEPRecord.convert_to_variant_record', ('C14',)
    declared_raises = ['TranscriptionStartSiteMutationError', 'TranscriptionStopSiteMutationError', 'ValueError']
    models = (install_seq_models,)
    assumptions = (
        'assumed: the VEP Location column is chr:a or chr:a-b with decimal a, b (str.split/int as inverse of printing)',
        'assumed: Bio.Seq slicing/indexing/reverse_complement = Python str semantics with a complement involution',
        'assumed: DNASeqRecord(WithCoordinates) constructors store seq/locations',
        'assumed: the gene lies on the chromosome (0 <= gene start < gene end <= len(chromosome)); the transcript lies in the gene',
    )
    timeout_ms = 20000

    def setup(self, I):
        e = I.e
        st = types.SimpleNamespace()
        gn = mk_gene_tagged(I)
        gn.obj.fields['attributes']['gene_name'] = 'SYMBOL'
        st.gn = gn
        st.Lc = e.int('chrom_len')
        st.C = PStr.sym(e, 'chrom', st.Lc)
        st.ts, st.te = e.int('tx_first'), e.int('tx_end')
        st.nf = e.bool('cds_start_NF')
        tagged = e.bool('has_tag_attribute')
        attrs = {'transcript_id': 'ENST_T', 'gene_id': gn.id}
        for ax in comp_axioms():
            e.assume(ax)
        e.assume(z3.And(0 <= gn.start, gn.start < gn.end, gn.end <= st.Lc, strand_pm(gn.strand)))
        e.assume(z3.And(gn.start <= st.ts, st.ts < st.te, st.te <= gn.end))
        if e.branch(tagged, 'transcript has a tag attribute'):
            attrs['tag'] = TagList(st.nf)
        else:
            e.assume(z3.Not(st.nf))
        tloc = SymObj('FeatureLocation', start=st.ts, end=st.te, strand=gn.strand, seqname='chr1',
                      reading_frame_index=None, start_offset=0, end_offset=0, ref=None, ref_db=None)
        transcript = SymObj('GTFSeqFeature', location=tloc, chrom='chr1', attributes=attrs,
                            type='transcript', id='ENST_T', qualifiers={}, source='GENCODE', frame=None)
        tx = SymObj('TranscriptAnnotationModel', transcript=transcript, exon=[], cds=[], utr=[],
                    five_utr=[], three_utr=[], start_codon=[], stop_codon=[], selenocysteine=[],
                    is_protein_coding=True, _seq=None, transcript_id='ENST_T', gene_id=gn.id,
                    protein_id=None, gene_name=None, gene_type=None)
        anno = SymObj('GenomicAnnotation', genes={gn.id: gn.obj}, transcripts={'ENST_T': tx},
                      source='GENCODE', gene_id_version_mapper=None, version=None, _cached_tx_seqs=[])
        genome = {'chr1': seq_record(st.C)}
        # the VEP row
        st.a, st.b = e.int('loc_a'), e.int('loc_b')
        st.has_dash = e.bool('loc_has_dash')
        dashpos = e.int('loc_dashpos')
        e.assume(dashpos >= 1)
        e.assume(z3.Implies(z3.Not(st.has_dash), st.b == st.a))
        e.assume(st.a <= st.b)
        st.allele = PStr.sym(e, 'allele')
        e.assume(st.allele.length() >= 1)
        rec = SymObj('VEPRecord', uploaded_variation='.', location=LocStr(PosStr(st.has_dash, st.a, st.b, dashpos)),
                     allele=st.allele, gene=gn.id, feature='ENST_T', feature_type='Transcript',
                     consequences=[], cdna_position='', cds_position='', protein_position='',
                     amino_acids=('', ''), codons=('', ''), existing_variation='-', extra={})
        st.args = [rec, anno, genome]
        self._cur = st
        return st

    # ---- the gene sequence and the event, from the property statement
    def G(self):
        """gene sequence = strand-corrected chromosome slice"""
        st = self._cur
        gn, C = st.gn, st.C
        n = gn.end - gn.start
        return PStr(n, lambda i: z3.If(gn.strand == 1, C.get(gn.start + i), cmpl(C.get(gn.end - 1 - i))), tag='G')

    def event(self):
        """(p0, p1, R): the genomic event replaces chromosome[p0:p1] by R (plus-strand letters)."""
        st = self._cur
        a, b, A = st.a, st.b, st.allele
        is_del = z3.And(A.length() == 1, A.get(0) == DASH)
        width = b - a + 1
        empty = PStr(0, lambda i: z3.IntVal(-1), tag="''")
        # deletion: bases a..b (1-based, inclusive) are removed
        # width 1: the base is replaced by the allele (SNV; multi-base allele = insertion written with its anchor)
        # width 2: the allele is inserted between a and a+1;  width >= 3: substitution
        p0 = z3.If(is_del, a - 1, z3.If(width == 2, a, a - 1))
        p1 = z3.If(is_del, b, z3.If(width == 2, a, b))
        rlen = z3.If(is_del, 0, A.length())
        R = PStr(rlen, A.get, tag='R')
        return p0, p1, R, is_del, width

    def post_return(self, I, st, ret):
        e = I.e
        gn, C = st.gn, st.C
        G = self.G()
        n = G.length()
        loc = ret.fields['location']
        s, en = loc.fields['start'], loc.fields['end']
        ref, alt = PStr.of(ret.fields['ref']), PStr.of(ret.fields['alt'])
        p0, p1, R, is_del, width = self.event()
        e.prove('C14/vep/record-on-gene', loc.fields['seqname'] == gn.id)
        # known finding K3 (known_findings.json): a multi-base allele on a one-base location at gene
        # position 0; everything outside that region is proved under the plain name
        l0_ = z3.If(gn.strand == 1, st.a - 1 - gn.start, gn.end - st.b)
        k3 = z3.And(z3.Not(is_del), width == 1, st.allele.length() > 1, l0_ == 0)

        def prove_k3(name, f):
            e.prove(f'C14/vep/{name}', z3.Implies(z3.Not(k3), f))
            e.prove(f'C14/vep/K3-anchored-insertion-at-gene-position-0/{name}', z3.Implies(k3, f))
        prove_k3('location-inside-gene', z3.And(0 <= s, s < en, en <= n))
        e.prove('C14/vep/event-inside-gene', z3.And(gn.start <= p0, p0 <= p1, p1 <= gn.end))
        i = z3.Int('i_pos')
        prove_k3('REF=gene-sequence-at-location',
                 z3.And(ref.length() == en - s,
                        z3.Implies(z3.And(0 <= i, i < en - s), ref.get(i) == G.get(s + i))))
        # gene after applying the record:  G[:s] + alt + G[en:]
        la = alt.length()
        new_len = s + la + (n - en)
        applied = z3.If(i < s, G.get(i), z3.If(i < s + la, alt.get(i - s), G.get(i - la + (en - s))))
        # chromosome after applying the event, gene re-extracted over [gs, ge + delta)
        delta = R.length() - (p1 - p0)
        Cn = lambda j: z3.If(j < p0, C.get(j), z3.If(j < p0 + R.length(), R.get(j - p0), C.get(j - delta)))
        exp_len = n + delta
        expected = z3.If(gn.strand == 1, Cn(gn.start + i), cmpl(Cn(gn.end + delta - 1 - i)))
        e.prove('C14/vep/applied-record=re-extracted-gene/length', new_len == exp_len)
        e.prove('C14/vep/applied-record=re-extracted-gene/content',
                z3.Implies(z3.And(0 <= i, i < exp_len), applied == expected))
        # boundary: the affected gene interval lies inside the transcript
        txs = z3.If(gn.strand == 1, st.ts - gn.start, gn.end - st.te)
        txe = txs + (st.te - st.ts)
        e0 = z3.If(gn.strand == 1, p0 - gn.start, gn.end - p1)
        e1 = e0 + (p1 - p0)
        e.prove('C14/vep/accepted-event-does-not-touch-transcript-boundary',
                z3.And(z3.Or(e0 > txs, z3.And(e0 == txs, st.nf)), e1 <= txe))
        e.prove('C14/vep/type', ret.fields['type'] in ('SNV', 'INDEL', 'MNV'))
        e.prove('C14/vep/transcript-id', ret.fields['attrs']['TRANSCRIPT_ID'] == 'ENST_T')
        idp = ret.fields['id']
        ok = isinstance(idp, OpaqueStr) and len(idp.parts) == 7 and idp.parts[0] == ret.fields['type'] \
            and idp.parts[4] is ret.fields['ref'] and idp.parts[6] is ret.fields['alt']
        e.prove('C14/vep/id=type-start1-ref-alt', z3.And(ok, idp.parts[2] == s + 1) if ok else False)

    def post_raise(self, I, st, exc):
        e = I.e
        gn = st.gn
        p0, p1, R, is_del, width = self.event()
        txs = z3.If(gn.strand == 1, st.ts - gn.start, gn.end - st.te)
        txe = txs + (st.te - st.ts)
        # gene interval named by the Location column
        l0 = z3.If(gn.strand == 1, st.a - 1 - gn.start, gn.end - st.b)
        l1 = l0 + (st.b - st.a + 1)
        if exc.cls == 'TranscriptionStartSiteMutationError':
            e.prove('C14/vep/raise-start/iff-touches-or-precedes-transcript-start',
                    z3.Or(l0 < txs, z3.And(l0 == txs, z3.Not(st.nf))))
        elif exc.cls == 'TranscriptionStopSiteMutationError':
            e.prove('C14/vep/raise-stop/iff-beyond-transcript-end', l1 > txe)
        else:
            st.value_errors = getattr(st, 'value_errors', 0) + 1
            G = self.G()
            inside = z3.And(gn.start <= st.a - 1, st.a <= st.b, st.b <= gn.end)
            A = st.allele
            k = z3.If(gn.strand == 1, st.a - 1 - gn.start, gn.end - st.a)
            anchor = G.get(k)
            A0 = z3.If(gn.strand == 1, A.get(0), cmpl(A.get(A.length() - 1)))
            Al = z3.If(gn.strand == 1, A.get(A.length() - 1), cmpl(A.get(0)))
            unanchored = z3.And(width == 1, z3.Not(is_del), A.length() > 1, anchor != A0, anchor != Al)
            # a deletion anchored at its end needs one base after it; an event needs its anchor base
            # a deletion of the transcript's first bases is anchored at the base after it: there must be one
            no_anchor = z3.And(is_del, l0 == txs, l1 >= G.length())
            e.prove('C14/vep/raise-ValueError/only-for-rows-outside-the-stated-event-kinds',
                    z3.Or(z3.Not(inside), unanchored, no_anchor))



# ----------------------------------------------------------------------------
# parseREDItools
# ----------------------------------------------------------------------------
from pyvc.symlist import SymList
from pyvc.interp import TRUEDIV
from .c11 import mk_tx_tagged

BASES = 'ACGT'


class SubPair:
    """all_subs[idx] = (ref base, alt base)"""
    def __init__(self, rec, idx):
        self.rec, self.idx = rec, idx

    def sym_getitem(self, I, pos):
        arr = self.rec.sub_ref if pos == 0 else self.rec.sub_alt
        idx = self.idx
        p = PStr(1, lambda k: arr[idx], tag=('sub', idx, pos))
        return p


class RedRec:
    """symbolic REDItoolsRecord state shared by the two contracts"""
    def __init__(self, I):
        e = I.e
        self.N = e.int('n_subs')
        self.sub_ref, self.sub_alt = e.array('sub_ref'), e.array('sub_alt')
        self.counts = [e.int(f'count_{b}') for b in BASES]
        self.total = sum(self.counts[1:], self.counts[0])
        self.gcov_none = e.bool('g_coverage_is_None')
        self.gcov = e.int('g_coverage_q')
        self.th = dict(min_coverage_alt=e.int('min_coverage_alt'), min_frequency_alt=e.real('min_frequency_alt'),
                       min_coverage_rna=e.int('min_coverage_rna'), min_coverage_dna=e.int('min_coverage_dna'))
        j = z3.Int('j_sub')
        e.assume(self.N >= 0)
        for c in self.counts:
            e.assume(c >= 0)
        e.assume(self.total > 0)
        # alt bases are among A, C, G, T (the REDItools AllSubs column)
        e.assume(z3.ForAll([j], z3.Implies(z3.And(0 <= j, j < self.N),
                                           z3.Or(*[self.sub_alt[j] == ord(b) for b in BASES]))))

    def count_of(self, j):
        a = self.sub_alt[j]
        return z3.If(a == ord('A'), self.counts[0], z3.If(a == ord('C'), self.counts[1],
                     z3.If(a == ord('G'), self.counts[2], self.counts[3])))

    def ok(self, j, th=None):
        """the acceptance rule of the property statement for substitution j"""
        th = th or self.th
        gate = z3.And(self.total >= th['min_coverage_rna'],
                      z3.Or(z3.And(z3.Not(self.gcov_none), self.gcov == -1),
                            z3.And(z3.Not(self.gcov_none), self.gcov >= th['min_coverage_dna'])))
        rc = self.count_of(j)
        return z3.And(gate, rc >= th['min_coverage_alt'],
                      TRUEDIV(z3.ToReal(rc), z3.ToReal(self.total)) >= th['min_frequency_alt'])

    def subs_view(self):
        return FnView(self.N, lambda i: SubPair(self, i if is_z3(i) else z3.IntVal(i)), tag='all_subs')

    def obj(self, I, **extra):
        gc = None if I.e.branch(self.gcov_none, 'g_coverage_q is None') else self.gcov
        return SymObj('REDItoolsRecord', region='chr1', position=extra.pop('position', 1), reference='A', strand=1,
                      coverage_q=30, mean_quality=30.0, base_count=list(self.counts), all_subs=self.subs_view(),
                      frequency=0.5, g_coverage_q=gc, transcript_id=extra.pop('transcript_id', []),
                      base_count_order={'A': 0, 'C': 1, 'G': 2, 'T': 3})

    def mk_cnt(self, e, th=None, name='cnt_ok'):
        cnt = z3.Function(e.fresh_name(name), I_, I_)
        q = z3.Int('q_cnt')
        okq = self.ok(q, th)
        ax = [cnt(0) == 0,
              z3.ForAll([q], z3.Implies(q >= 0, cnt(q + 1) == cnt(q) + z3.If(okq, 1, 0)), patterns=[cnt(q + 1)]),
              z3.ForAll([q], z3.Implies(q >= 0, z3.And(0 <= cnt(q), cnt(q) <= q)), patterns=[cnt(q)])]
        a, b = z3.Ints('a_cnt b_cnt')
        # lemma count_of_accepted_is_bounded (monotone, 1-Lipschitz): proved separately by induction
        ax.append(z3.ForAll([a, b], z3.Implies(z3.And(0 <= a, a <= b), z3.And(cnt(a) <= cnt(b), cnt(b) - cnt(a) <= b - a)),
                            patterns=[z3.MultiPattern(cnt(a), cnt(b))]))
        return cnt, ax


def sublist(I, rec, name='valid_subs', length=None, arr=None):
    return SymList(I, name, z3.IntSort(), wrap=lambda t: SubPair(rec, t), unwrap=lambda v: v.idx,
                   length=length, arr=arr)


@register
class CntBounds(Lemma):
    """For cnt(0)=0, cnt(q+1)=cnt(q)+[P(q)]:  0 <= cnt(q) <= q, and cnt is monotone and 1-Lipschitz
    (induction on the upper index); assumed by mk_cnt."""
    qualname, props = 'count_of_accepted_is_bounded', ('C14',)

    def obligations(self, e):
        from pyvc.contract import induction
        cnt = z3.Function('cntL', I_, I_)
        P = z3.Function('PL', I_, B_)
        q, a = z3.Ints('qL aL')
        hy = [cnt(0) == 0, z3.ForAll([q], z3.Implies(q >= 0, cnt(q + 1) == cnt(q) + z3.If(P(q), 1, 0)), patterns=[cnt(q + 1)])]
        Pb = lambda b: z3.ForAll([a], z3.Implies(z3.And(0 <= a, a <= b), z3.And(cnt(a) <= cnt(b), cnt(b) - cnt(a) <= b - a)))
        Pc = lambda b: z3.And(0 <= cnt(b), cnt(b) <= b)
        n = z3.Int('n_any')
        return induction('monotone-1-lipschitz', Pb, n, hy) + induction('bounded', Pc, n, hy)


@register
class RedValidSubs(Contract):
    path, qualname, props = RED, 'REDItoolsRecord.get_valid_subs', ('C14',)
    uses_lemmas = ('count_of_accepted_is_bounded',)
    assumptions = ('assumed: base counts are non-negative with a positive total (REDItools reports covered sites only); '
                   'alt bases are A/C/G/T; true division of ints = real division (floats not modelled)',)

    def setup(self, I):
        rec = RedRec(I)
        I.abstract_truediv = True
        st = types.SimpleNamespace(rec=rec)
        st.cnt, ax = rec.mk_cnt(I.e)
        for a in ax:
            I.e.assume(a)
        st.args = [rec.obj(I)]
        st.kwargs = dict(rec.th)
        self._cur = st
        return st

    def inv(self, I, env, k):
        st = self._cur
        vs = env['valid_subs']
        q = z3.Int('q_inv')
        if isinstance(vs, list):
            return [('valid_subs=accepted-prefix', len(vs) == 0 and k == 0)]
        return [('len=count-of-accepted', vs.length == st.cnt(k)),
                ('accepted-in-order', z3.ForAll([q], z3.Implies(z3.And(0 <= q, q < k, st.rec.ok(q)),
                                                                vs.arr[st.cnt(q)] == q)))]

    def havoc(self, I, env, k):
        env['valid_subs'] = sublist(I, self._cur.rec)

    @property
    def loops(self):
        return {0: LoopSpec(inv=self.inv, havoc=self.havoc)}

    def post_return(self, I, st, ret):
        rec = st.rec
        q = z3.Int('q_post')
        if isinstance(ret, list):
            I.e.prove('C14/reditools/thresholds/nothing-returned-only-if-nothing-accepted',
                      z3.And(len(ret) == 0, z3.ForAll([q], z3.Implies(z3.And(0 <= q, q < rec.N), z3.Not(rec.ok(q))))))
            return
        I.e.prove('C14/reditools/thresholds/returned=accepted-substitutions-in-order',
                  z3.And(ret.length == st.cnt(rec.N),
                         z3.ForAll([q], z3.Implies(z3.And(0 <= q, q < rec.N, rec.ok(q)), ret.arr[st.cnt(q)] == q))))

    def summary(self, I, args, kwargs):
        rec = args[0].tag
        e = I.e
        names = ['min_coverage_alt', 'min_frequency_alt', 'min_coverage_rna', 'min_coverage_dna']
        th = dict(zip(names, args[1:]))
        th.update(kwargs)
        cnt, ax = rec.mk_cnt(e, th, 'cnt_call')
        for a in ax:
            e.assume(a)
        out = sublist(I, rec, 'valid_subs_ret')
        q, t = z3.Int('q_sum'), z3.Int('t_sum')
        e.assume(out.length == cnt(rec.N))
        e.assume(z3.ForAll([q], z3.Implies(z3.And(0 <= q, q < rec.N, rec.ok(q, th)), out.arr[cnt(q)] == q)))
        # consequence used by callers (every element is an accepted substitution): by the bijection above
        e.assume(z3.ForAll([t], z3.Implies(z3.And(0 <= t, t < out.length),
                                           z3.And(0 <= out.arr[t], out.arr[t] < rec.N, rec.ok(out.arr[t], th))),
                           patterns=[out.arr[t]]))
        # quantifier-free consequences (used for path pruning): at most N accepted, none if the site-level gate fails
        gate = z3.And(rec.total >= th['min_coverage_rna'],
                      z3.Or(z3.And(z3.Not(rec.gcov_none), rec.gcov == -1),
                            z3.And(z3.Not(rec.gcov_none), rec.gcov >= th['min_coverage_dna'])))
        e.assume(z3.And(out.length >= 0, out.length <= rec.N, z3.Implies(z3.Not(gate), out.length == 0)))
        out.th = th
        return out


class TxIdStr:
    """the transcript id string of listed transcript number idx"""
    def __init__(self, idx):
        self.idx = idx

    def sym_str(self, I):
        return OpaqueStr(['tx_id', self.idx])


class FeatureStr:
    def __init__(self, is_tx):
        self.is_tx = is_tx

    def sym_eq(self, I, other):
        if other == 'transcript':
            return self.is_tx
        raise Unsupported('feature string compared with ' + repr(other))


class TxTable:
    """anno.transcripts: every listed id names an arbitrary well-formed transcript of the gene"""
    def __init__(self, owner):
        self.owner = owner

    def sym_getitem(self, I, key):
        st = self.owner._cur
        if not isinstance(key, TxIdStr):
            raise Unsupported('transcript lookup with a foreign key')
        gno = st.gene_of(key.idx)
        h = mk_tx_tagged(I, name='tx', tx_id=key, gene_id=GeneKey(gno))
        for a in h.axioms + [strand_pm(h.strand)]:
            I.e.assume(a)
        h.gn = st.genes.gene(gno).tag
        st.tx_lookups.append((key.idx, h))
        return h.obj


class GeneKey:
    """gene id string of gene number gno"""
    def __init__(self, gno):
        self.gno = gno

    def sym_str(self, I):
        return OpaqueStr(['gene_id', self.gno])

    def sym_eq(self, I, other):
        return isinstance(other, GeneKey) and (self.gno == other.gno)

    def __hash__(self):
        return hash(z3.simplify(self.gno).sexpr())

    def __eq__(self, other):
        return isinstance(other, GeneKey) and z3.simplify(self.gno).sexpr() == z3.simplify(other.gno).sexpr()


class GeneTable:
    """anno.genes: gene number -> gene model with its own start / end / strand (listed transcripts may belong to
    different, overlapping genes)"""
    def __init__(self, I):
        e = I.e
        self.I = I
        self.gs, self.ge, self.gstrand = e.array('genes_start'), e.array('genes_end'), e.array('genes_strand')
        self.cache = {}

    def gene(self, gno):
        key = z3.simplify(gno).sexpr()
        if key not in self.cache:
            gid = GeneKey(gno)
            loc = SymObj('FeatureLocation', start=self.gs[gno], end=self.ge[gno], strand=self.gstrand[gno], seqname='chr1',
                         reading_frame_index=None, start_offset=0, end_offset=0, ref=None, ref_db=None)
            g = SymObj('GeneAnnotationModel', location=loc, chrom='chr1', attributes={'gene_id': gid}, type='gene', id=gid,
                       qualifiers={}, source='GENCODE', frame=None, transcripts=[], exons=[])
            g.tag = types.SimpleNamespace(obj=g, start=self.gs[gno], end=self.ge[gno], strand=self.gstrand[gno], id=gid, gno=gno)
            self.I.e.assume(self.gs[gno] < self.ge[gno])
            self.cache[key] = g
        return self.cache[key]

    def __getitem__(self, key):
        return self.gene(key.gno)

    def sym_getitem(self, I, key):
        if not isinstance(key, GeneKey):
            raise Unsupported('gene lookup with a foreign key')
        return self.gene(key.gno)


class GhostRecords:
    """`records`: every append is checked against the property at the moment it happens"""
    def __init__(self, owner):
        self.owner = owner

    def sym_method(self, I, name, args, kwargs):
        if name != 'append':
            raise Unsupported(f'records.{name}')
        self.owner.on_append(I, args[0])
        return None


@register
class RedConvert(Contract):
    path, qualname, props = RED, 'REDItoolsRecord.convert_to_variant_records', ('C14',)
    declared_raises = ['ValueError']
    uses_lemmas = ('count_of_accepted_is_bounded',)
    assumptions = ('assumed: every transcript id listed in the REDItools row is annotated (anno.transcripts[id] exists) with '
                   'well-formed exons and belongs to the gene given by its gene_id attribute',)

    def setup(self, I):
        e = I.e
        rec = RedRec(I)
        I.abstract_truediv = True
        st = types.SimpleNamespace(rec=rec)
        st.genes = GeneTable(I)
        st.gene_of = z3.Function('gene_of_listed_transcript', I_, I_)
        st.M = e.int('n_listed')
        e.assume(st.M >= 0)
        st.is_tx = z3.Function('listed_feature_is_transcript', I_, B_)
        st.pos = e.int('position')
        listed = FnView(st.M, lambda i: (TxIdStr(i if is_z3(i) else z3.IntVal(i)),
                                         FeatureStr(st.is_tx(i if is_z3(i) else z3.IntVal(i)))), tag='transcript_id')
        st.tx_lookups, st.appended, st.valid_calls, st.inner_inits = [], [], [], []
        robj = rec.obj(I, position=st.pos, transcript_id=listed)
        robj.tag = rec
        anno = SymObj('GenomicAnnotation', genes=st.genes, transcripts=TxTable(self),
                      source='GENCODE', gene_id_version_mapper=None, version=None, _cached_tx_seqs=[])
        st.args = [robj, anno]
        st.kwargs = dict(rec.th)
        self._cur = st
        return st

    # loop 0: collect the ids whose feature is 'transcript'
    def inv0(self, I, env, k):
        ids = env['_ids']
        if isinstance(ids, list):
            return [('ids-empty-at-entry', len(ids) == 0)]
        st = self._cur
        t = z3.Int('t_ids')
        return [('ids-are-listed-transcripts', z3.ForAll([t], z3.Implies(z3.And(0 <= t, t < ids.length),
                 z3.And(0 <= ids.arr[t], ids.arr[t] < st.M, st.is_tx(ids.arr[t]))))),
                ('no-more-ids-than-rows-seen', ids.length <= k)]

    def havoc0(self, I, env, k):
        env['_ids'] = SymList(I, '_ids', z3.IntSort(), wrap=lambda t: TxIdStr(t), unwrap=lambda v: v.idx)

    # loop 1: per transcript;  loop 2: per accepted substitution
    def havoc1(self, I, env, k):
        env['records'] = GhostRecords(self)

    def head1(self, I, env, k):
        st = self._cur
        st.n_app_before, st.n_lookup_before = len(st.appended), len(st.tx_lookups)

    def step1(self, I, env, k):
        """at the end of an outer iteration that did not enter the inner loop body"""
        st = self._cur
        idx, h = st.tx_lookups[-1]
        exonic = z3.Not(no_exon(h, st.pos - 1))
        vs = env.get('valid_subs') if env.has('valid_subs') else None
        items = [('one-transcript-lookup-per-iteration', len(st.tx_lookups) == st.n_lookup_before + 1)]
        if len(st.appended) == st.n_app_before:
            # nothing appended on this path: either the site is not exonic here, or no substitution is accepted
            reached_inner = bool(st.inner_inits) and st.inner_inits[-1] == len(st.tx_lookups)
            if reached_inner:
                items.append(('inner-loop-only-for-exonic-site', exonic))
            else:
                items.append(('transcript-skipped-only-if-site-not-exonic', z3.Not(exonic)))
        return items

    def inv2(self, I, env, k):
        return []

    @property
    def models(self):
        return (self.install_models,)

    def install_models(self, reg):
        c = self
        callee = [x for x in __import__('pyvc.contract', fromlist=['ALL_CONTRACTS']).ALL_CONTRACTS
                  if isinstance(x, RedValidSubs)][0]

        def get_valid_subs(I, obj, a, k):
            st = c._cur
            st.valid_calls.append(len(st.tx_lookups))
            I.e.prove('C14/reditools/thresholds-forwarded-unchanged',
                      not a and set(k) == set(st.rec.th) and all(k[n] is st.rec.th[n] for n in k))
            return callee.summary(I, [obj] + list(a), k)
        reg.method_('REDItoolsRecord', 'get_valid_subs', get_valid_subs)

        def stale(I, obj, attr):
            I.e.prove(f"C14/reditools/each-transcript-handled-on-its-own (no value of an earlier transcript reused: {obj.fields['name']})", False)
        reg.on_stale_use = stale

    def step2(self, I, env, k):
        st = self._cur
        new = st.appended[st.n_app_before:]
        return [('exactly-one-record-per-accepted-substitution', len(new) == 1 and new[0][1] is not None
                 and z3.is_true(z3.simplify(new[0][1] == env['valid_subs'].arr[k])))]

    @property
    def loops(self):
        inner = LoopSpec(inv=self.inv2, step=self.step2, on_init=lambda I, env: self._cur.inner_inits.append(len(self._cur.tx_lookups)))
        return {0: LoopSpec(inv=self.inv0, havoc=self.havoc0),
                1: LoopSpec(inv=lambda I, env, k: [], havoc=self.havoc1, on_head=self.head1, step=self.step1),
                2: inner}

    def on_append(self, I, record):
        e = I.e
        st = self._cur
        rec = st.rec
        ok_shape = isinstance(record, SymObj) and record.cls == 'VariantRecord' and st.tx_lookups
        e.prove('C14/reditools/append/is-a-variant-record-of-a-looked-up-transcript', bool(ok_shape))
        if not ok_shape:
            st.appended.append((record, None))
            return
        idx, h = st.tx_lookups[-1]
        gn = h.gn                      # the gene of this transcript
        loc = record.fields['location']
        g = st.pos - 1
        e.prove('C14/reditools/record-only-for-a-transcript-in-which-the-site-is-exonic', z3.Not(no_exon(h, g)))
        e.prove('C14/reditools/record-at-the-gene-position-of-the-genomic-coordinate',
                z3.And(gn.start <= g, g < gn.end, loc.fields['start'] == g2gene_val(gn, g),
                       loc.fields['end'] == loc.fields['start'] + 1, as_bool(I.eq(loc.fields['seqname'], gn.id))))
        ref, alt = record.fields['ref'], record.fields['alt']
        good = isinstance(ref, PStr) and isinstance(alt, PStr) and isinstance(ref.tag, tuple) and isinstance(alt.tag, tuple) \
            and ref.tag[0] == 'sub' and alt.tag[0] == 'sub' and ref.tag[2] == 0 and alt.tag[2] == 1 and ref.tag[1] is alt.tag[1]
        e.prove('C14/reditools/ref-alt-are-one-reported-substitution', bool(good))
        sub_idx = ref.tag[1] if good else None
        if good:
            e.prove('C14/reditools/substitution-passes-the-thresholds-given-to-the-command',
                    z3.And(0 <= sub_idx, sub_idx < rec.N, rec.ok(sub_idx)))
        attrs = record.fields['attrs']
        tid = attrs.get('TRANSCRIPT_ID')
        e.prove('C14/reditools/attrs/transcript-id-of-this-transcript',
                isinstance(tid, TxIdStr) and z3.is_true(z3.simplify(tid.idx == idx)))
        e.prove('C14/reditools/attrs/strand-of-the-gene', attrs.get('STRAND') is gn.strand or
                (is_z3(attrs.get('STRAND')) and z3.is_true(z3.simplify(attrs.get('STRAND') == gn.strand))))
        e.prove('C14/reditools/type', record.fields['type'] == 'RNAEditingSite')
        idp = record.fields['id']
        okid = isinstance(idp, OpaqueStr) and len(idp.parts) == 6 and idp.parts[0] == 'RES-' and idp.parts[3] is ref \
            and idp.parts[5] is alt
        e.prove('C14/reditools/id=RES-position1-ref-alt',
                z3.And(okid, idp.parts[1] == loc.fields['start'] + 1) if okid else False)
        st.appended.append((record, sub_idx))

    def post_return(self, I, st, ret):
        I.e.prove('C14/reditools/returns-the-checked-record-list', isinstance(ret, (GhostRecords, list)))

    def post_raise(self, I, st, exc):
        # only the gene lookup can raise: the site is exonic in a transcript that lies outside its gene
        gn = st.tx_lookups[-1][1].gn if st.tx_lookups else None
        I.e.prove('C14/reditools/raise/only-from-the-gene-coordinate-conversion',
                  z3.Not(z3.And(gn.start <= st.pos - 1, st.pos - 1 < gn.end, strand_pm(gn.strand))) if gn is not None else False)


# ----------------------------------------------------------------------------
# parseVEP command loop: a rejected or failing row is counted and contributes no record
# ----------------------------------------------------------------------------
PVC = 'moPepGen/cli/parse_vep.py'


class GhostRecordDict:
    """vep_records: transcript id -> list; membership unconstrained, writes reported"""
    def __init__(self, owner):
        self.owner = owner

    def sym_contains(self, I, item):
        return I.e.bool('transcript_already_has_records')

    def sym_setitem(self, I, key, v):
        self.owner._cur.log.append(('new-list', key))

    def sym_getitem(self, I, key):
        owner = self.owner

        class L_:
            def sym_contains(s_, I2, item):
                # whether an equal record is already in the list: unknown (record equality ignores the transcript)
                return I2.e.bool('an_equal_record_is_already_stored')

            def sym_method(s_, I2, name, a, k):
                if name == 'append':
                    owner._cur.stored.append((key, a[0]))
                    return None
                if name == 'sort':
                    return None
                raise Unsupported(name)
        return L_()

    def sym_truth(self, I):
        return I.e.bool('any_record_collected')

    def sym_method(self, I, name, args, kwargs):
        if name in ('values', 'keys'):
            return FnView(I.e.int('n_keys'), lambda i: SymObj('KeyStub', i=i), tag=name)
        if name in ('pop', 'popitem', 'clear'):
            # the list under a transcript holds the records converted so far for it (from this and earlier rows): removing it loses them
            I.e.prove('C14/cli/records-already-collected-for-a-transcript-are-never-removed', False)
            return None
        raise Unsupported(f'vep_records.{name}')


@register
class VepCLI(Contract):
    path, qualname, props = PVC, 'parse_vep', ('C14', 'C07')
    assumptions = ('havoc: record.convert_to_variant_record returns a record or raises TranscriptionStart/StopSiteMutationError / anything else '
                   '(its own contract is proved separately); VEPParser.parse yields the rows of a file; output sorting and writing are external',)

    def setup(self, I):
        e = I.e
        st = types.SimpleNamespace(log=[], stored=[], outcome=None, writes=[])
        st.F = e.int('n_files')
        e.assume(st.F >= 0)
        st.skip_failed = e.bool('skip_failed')
        dests = parser_dests('moPepGen.cli.parse_vep', 'add_subparser_parse_vep')
        files = FnView(st.F, lambda i: SymObj('PathStub14', i=i if is_z3(i) else z3.IntVal(i), suffix='.tsv'), tag='input files')
        known = dict(input_path=files, output_path=OpaqueStr(['out']), skip_failed=st.skip_failed, source='gSNP')
        st.args_obj = real_namespace(dests, known)
        st.anno, st.genome = SymObj('AnnoStub14'), SymObj('GenomeStub14')
        st.args = [st.args_obj]
        self._cur = st
        return st

    @property
    def models(self):
        c = self

        def inst(reg):
            noop = lambda I, a, k: None
            reg.func_('moPepGen/cli/common.py', 'validate_file_format', noop)
            reg.func_('moPepGen/cli/common.py', 'print_start_message', noop)
            reg.func_('moPepGen/cli/common.py', 'load_references', lambda I, a, k: (c._cur.genome, c._cur.anno, None, None))
            reg.func_('moPepGen/cli/common.py', 'generate_metadata', lambda I, a, k: SymObj('Metadata'))
            reg.ext_('open', lambda I, a, k: SymObj('File14'))
            reg.ext_('gzip.open', lambda I, a, k: SymObj('File14'))
            reg.strict_attr_classes = {'Namespace'}

            def parse(I, a, k):
                n = I.e.int('n_rows')
                I.e.assume(n >= 0)
                return FnView(n, lambda i: SymObj('VepRow', idx=i if is_z3(i) else z3.IntVal(i), feature=SymObj('TxKey', i=i)), tag='rows')
            reg.func_('moPepGen/parser/VEPParser.py', 'parse', parse)

            def convert(I, o, a, k):
                st = c._cur
                I.e.prove('C14/cli/convert-gets-annotation-and-genome', len(a) == 2 and a[0] is st.anno and a[1] is st.genome)
                ch = I.e.choose(4, 'convert outcome')
                st.outcome = ch
                if ch == 1:
                    raise PyRaise(SymExc('TranscriptionStopSiteMutationError', ['t']))
                if ch == 2:
                    raise PyRaise(SymExc('TranscriptionStartSiteMutationError', ['t']))
                if ch == 3:
                    raise PyRaise(SymExc('<any>', ['failure']))
                st.result = SymObj('VariantRecordStub', of=o.fields['idx'])
                return st.result
            reg.method_('VepRow', 'convert_to_variant_record', convert)
            reg.method_('AnnoStub14', 'get_transcript_rank', lambda I, o, a, k: SymObj('Rank'))
            reg.sorted_hooks.append(lambda I, items, kw: items if isinstance(items, FnView) else None)
            reg.func_('moPepGen/seqvar/io.py', 'write', lambda I, a, k: c._cur.writes.append(a[0]))
            reg.ext_('seqvar.io.write', lambda I, a, k: c._cur.writes.append(a[0]))
            reg.str_hooks.append(lambda v: (lambda I, v: OpaqueStr(['row'])) if isinstance(v, SymObj) and v.cls == 'VepRow' else None)
            reg.method_('KeyStub', 'sort', lambda I, o, a, k: None)
            reg.method_('AllRecords', 'extend', lambda I, o, a, k: None)

            def stale(I, obj, attr):
                I.e.prove('C14/cli/rejected-row-contributes-nothing (no record of an earlier row reused)', False)
            reg.on_stale_use = stale
        return (inst,)

    def tally(self, env):
        t = env['tally']
        return t, t.fields['failed']

    def havoc_tally(self, I, env, k):
        e = I.e
        t, f = self.tally(env)
        t.fields['total'], t.fields['succeed'] = e.int('t_total'), e.int('t_succeed')
        for n in ('total', 'stop_site_mutation', 'start_site_mutation'):
            f.fields[n] = e.int(f't_failed_{n}')
        env['vep_records'] = GhostRecordDict(self)

    def inv(self, I, env, k):
        t, f = self.tally(env)
        return [('rows-read=succeeded+failed', t.fields['total'] == t.fields['succeed'] + f.fields['total']),
                ('site-errors-are-part-of-the-failures', z3.And(f.fields['stop_site_mutation'] >= 0, f.fields['start_site_mutation'] >= 0,
                                                                f.fields['stop_site_mutation'] + f.fields['start_site_mutation'] <= f.fields['total'],
                                                                t.fields['succeed'] >= 0))]

    def on_head(self, I, env, k):
        st = self._cur
        t, f = self.tally(env)
        st.pre = dict(succeed=t.fields['succeed'], failed=f.fields['total'], stop=f.fields['stop_site_mutation'], start=f.fields['start_site_mutation'],
                      ns=len(st.stored))
        st.outcome = None

    def step(self, I, env, k):
        st = self._cur
        t, f = self.tally(env)
        d = lambda cur, key: z3.simplify(cur - st.pre[key])
        ds, dfail, dstop, dstart = d(t.fields['succeed'], 'succeed'), d(f.fields['total'], 'failed'), d(f.fields['stop_site_mutation'], 'stop'), d(f.fields['start_site_mutation'], 'start')
        eq = lambda x, v: z3.is_true(z3.simplify(x == v))
        stored = st.stored[st.pre['ns']:]
        if st.outcome == 0:
            ok = eq(ds, 1) and eq(dfail, 0) and eq(dstop, 0) and eq(dstart, 0) and len(stored) == 1 and stored[0][1] is st.result \
                and isinstance(stored[0][0], SymObj) and z3.is_true(z3.simplify(stored[0][0].fields['i'] == k))
            return [('converted-row-stored-once-under-its-transcript-and-counted', ok)]
        if st.outcome == 1:
            return [('stop-site-row-counted-and-nothing-stored', eq(ds, 0) and eq(dfail, 1) and eq(dstop, 1) and eq(dstart, 0) and not stored)]
        if st.outcome == 2:
            return [('start-site-row-counted-and-nothing-stored', eq(ds, 0) and eq(dfail, 1) and eq(dstop, 0) and eq(dstart, 1) and not stored)]
        return [('other-failure-with---skip-failed-counted-and-nothing-stored',
                 z3.And(st.skip_failed, eq(ds, 0) and eq(dfail, 1) and eq(dstop, 0) and eq(dstart, 0) and not stored))]

    @property
    def loops(self):
        T = lambda I, env, k: []
        return {0: LoopSpec(inv=T), 1: LoopSpec(inv=self.inv, havoc=self.havoc_tally),
                2: LoopSpec(inv=self.inv, havoc=self.havoc_tally, on_head=self.on_head, step=self.step),
                3: LoopSpec(inv=T), 4: LoopSpec(inv=T, havoc=lambda I, env, k: env.__setitem__('all_records', SymObj('AllRecords')))}

    def post_raise(self, I, st, exc):
        I.e.prove('C14/cli/raise/only-an-unexpected-failure-without---skip-failed-propagates',
                  z3.And(exc.cls == '<any>' and st.outcome == 3, z3.Not(st.skip_failed)))
        if exc.cls == 'AttributeError':
            I.e.prove(f'C14/cli/every-option-read-is-defined-by-the-parser:{exc.msg}', False)


PRC14 = 'moPepGen/cli/parse_reditools.py'


@register
class RedCLI(Contract):
    """parseREDItools: every row of the table is converted with the annotation and the four thresholds given on the command line, bound
    (by Python's own argument binding on the real signature) to the parameters of the same name; the transcript column is the 1-based
    option minus one; every returned record is stored under the gene it is located on; a row counts as succeeded iff it yields a
    record, else as skipped; a failing row propagates"""
    path, qualname, props = PRC14, 'parse_reditools', ('C14', 'C07')
    assumptions = ('havoc: REDItoolsParser.parse yields the rows of the table; record.convert_to_variant_records returns 0..n records or raises '
                   '(its own contract is proved separately); output sorting and writing are external',)

    def setup(self, I):
        e = I.e
        st = types.SimpleNamespace(log=[], stored=[], writes=[], parse_args=None)
        dests = parser_dests('moPepGen.cli.parse_reditools', 'add_subparser_parse_reditools')
        st.th = dict(min_coverage_alt=e.int('min_coverage_alt'), min_frequency_alt=SymObj('Opt', n='min_frequency_alt'),
                     min_coverage_rna=e.int('min_coverage_rna'), min_coverage_dna=e.int('min_coverage_dna'))
        st.col = e.int('transcript_id_column')
        st.table = SymObj('PathStub14', suffix='.tsv')
        known = dict(input_path=st.table, output_path=OpaqueStr(['out']), transcript_id_column=st.col, source='RNAEditingSite', **st.th)
        st.args_obj = real_namespace(dests, known)
        st.anno = SymObj('AnnoStub14')
        st.args = [st.args_obj]
        self._cur = st
        return st

    @property
    def models(self):
        c = self

        def inst(reg):
            noop = lambda I, a, k: None
            reg.func_('moPepGen/cli/common.py', 'validate_file_format', noop)
            reg.func_('moPepGen/cli/common.py', 'print_start_message', noop)

            def load_refs(I, a, k):
                I.e.prove('C14/red-cli/annotation-loaded-from-the-run-arguments', (a[0] if a else k.get('args')) is c._cur.args_obj)
                return (None, c._cur.anno, None, None)
            reg.func_('moPepGen/cli/common.py', 'load_references', load_refs)
            reg.func_('moPepGen/cli/common.py', 'generate_metadata', lambda I, a, k: SymObj('Metadata'))
            reg.strict_attr_classes = {'Namespace'}

            def parse(I, a, k):
                st = c._cur
                I.e.prove('C14/red-cli/table-parsed-with-the-transcript-column-minus-one', len(a) == 2 and a[0] is st.table and z3.is_true(z3.simplify(a[1] == st.col - 1)))
                n = I.e.int('n_rows')
                I.e.assume(n >= 0)
                return FnView(n, lambda i: SymObj('RedRow', idx=i if is_z3(i) else z3.IntVal(i)), tag='rows')
            reg.func_('moPepGen/parser/REDItoolsParser.py', 'parse', parse)

            def convert(I, o, a, k):
                st = c._cur
                # bind the call on the real signature of REDItoolsRecord.convert_to_variant_records
                from pyvc.interp import Env
                cls_, fnode = I.repo.find_method('REDItoolsRecord', 'convert_to_variant_records')
                env_ = Env({})
                I.bind_args(fnode.args, [o] + list(a), dict(k), env_, 'convert_to_variant_records')
                bound = env_.vars
                good = bound.get('anno') is st.anno and all(bound.get(n) is v for n, v in st.th.items())
                I.e.prove('C14/red-cli/annotation-and-thresholds-reach-the-parameters-of-the-same-name', good)
                ch = I.e.choose(3, 'convert outcome')
                st.outcome = ch
                if ch == 2:
                    raise PyRaise(SymExc('<any>', ['failure']))
                if ch == 0:
                    st.result = []
                    return []
                st.result = [SymObj('VariantRecordStub', of=o.fields['idx'], n=0, location=SymObj('Loc', seqname=SymObj('GeneKey14', r=0))),
                             SymObj('VariantRecordStub', of=o.fields['idx'], n=1, location=SymObj('Loc', seqname=SymObj('GeneKey14', r=1)))]
                return st.result
            reg.method_('RedRow', 'convert_to_variant_records', convert)
            reg.method_('AnnoStub14', 'get_genes_rank', lambda I, o, a, k: SymObj('Rank'))
            reg.sorted_hooks.append(lambda I, items, kw: items if isinstance(items, FnView) else None)
            reg.func_('moPepGen/seqvar/io.py', 'write', lambda I, a, k: c._cur.writes.append(a[0]))
            reg.ext_('seqvar.io.write', lambda I, a, k: c._cur.writes.append(a[0]))
            reg.method_('KeyStub', 'sort', lambda I, o, a, k: None)
            reg.method_('AllRecords', 'extend', lambda I, o, a, k: None)
        return (inst,)

    def havoc(self, I, env, k):
        e = I.e
        t = env['tally']
        for n in ('total', 'succeed', 'skipped'):
            t.fields[n] = e.int(f't_{n}')
        env['variants'] = GhostRecordDict(self)

    def inv(self, I, env, k):
        t = env['tally']
        return [('rows-read=succeeded+skipped', z3.And(t.fields['total'] == t.fields['succeed'] + t.fields['skipped'], t.fields['total'] == k,
                                                      t.fields['succeed'] >= 0, t.fields['skipped'] >= 0))]

    def on_head(self, I, env, k):
        st = self._cur
        t = env['tally']
        st.pre = dict(succeed=t.fields['succeed'], skipped=t.fields['skipped'], ns=len(st.stored))
        st.outcome = None

    def step(self, I, env, k):
        st = self._cur
        t = env['tally']
        eq = lambda x, v: z3.is_true(z3.simplify(x == v))
        ds, dk = t.fields['succeed'] - st.pre['succeed'], t.fields['skipped'] - st.pre['skipped']
        stored = st.stored[st.pre['ns']:]
        if st.outcome == 0:
            return [('row-without-records-counted-as-skipped-and-nothing-stored', eq(ds, 0) and eq(dk, 1) and not stored)]
        ok = eq(ds, 1) and eq(dk, 0) and len(stored) == len(st.result) and all(s_[1] is r and s_[0] is r.fields['location'].fields['seqname'] for s_, r in zip(stored, st.result))
        return [('every-record-of-the-row-stored-once-under-its-gene-and-the-row-counted', ok)]

    @property
    def loops(self):
        T = lambda I, env, k: []
        return {0: LoopSpec(inv=self.inv, havoc=self.havoc, on_head=self.on_head, step=self.step),
                2: LoopSpec(inv=T), 3: LoopSpec(inv=T, havoc=lambda I, env, k: env.__setitem__('all_records', SymObj('AllRecords')))}

    def post_raise(self, I, st, exc):
        I.e.prove('C14/red-cli/raise/only-a-failing-row-propagates', exc.cls == '<any>' and st.outcome == 2)
        if exc.cls == 'AttributeError':
            I.e.prove(f'C14/red-cli/every-option-read-is-defined-by-the-parser:{exc.msg}', False)


# ----------------------------------------------------------------------------
# Native side: replay of counterexamples + CPython cross-check of the two contracts (bounded, labelled)
# ----------------------------------------------------------------------------
from pyvc.native import NativeCheck
from . import realobj

_RC = {'A': 'T', 'C': 'G', 'G': 'C', 'T': 'A', 'N': 'N'}


def _rc(s):
    return ''.join(_RC[c] for c in reversed(s))


# ----------------------------------------------------------------------------
# the text parser in front of the VEP converter
# ----------------------------------------------------------------------------
class _VepField:
    def __init__(self, owner, k, col, part=None):
        self.owner, self.k, self.col, self.part = owner, k, col, part

    def sym_method(self, I, name, a, kw):
        if name == 'split' and len(a) == 1 and a[0] in (',', '/') and self.part is None:
            if I.e.branch(self.owner._cur.single(self.k, z3.IntVal(self.col)), f'column {self.col} has one part'):
                return [_VepField(self.owner, self.k, self.col, 0)]
            return [_VepField(self.owner, self.k, self.col, 0), _VepField(self.owner, self.k, self.col, 1)]
        raise Unsupported(f'VEP field.{name}')

    def sym_eq(self, I, other):
        if isinstance(other, _VepField):
            return z3.BoolVal(True) if (other.col, other.part) == (self.col, self.part) and z3.eq(z3.simplify(other.k), z3.simplify(self.k)) else I.e.bool('fields_equal')
        if other == '-' and self.part is None:
            return self.owner._cur.dash(self.k, z3.IntVal(self.col))
        raise Unsupported('VEP field compared with other text')

    def sym_str(self, I):
        return self


class _VepLine:
    def __init__(self, owner, k, stripped=False):
        self.owner, self.k, self.stripped = owner, k, stripped

    def sym_method(self, I, name, a, kw):
        if name == 'startswith' and a == ['#']:
            return self.owner._cur.comment(self.k)
        if name == 'rstrip' and not a:
            return _VepLine(self.owner, self.k, True)
        if name == 'split' and a == ['\t']:
            if not self.stripped:
                raise Unsupported('the line is split with its line break still attached')
            return [_VepField(self.owner, self.k, c) for c in range(self.owner.NCOL)]
        raise Unsupported(f'VEP line.{name}')


@register
class VepTable(Contract):
    """VEPParser.parse(handle): every line that does not start with '#' yields exactly one record, in file order, whose location, allele, gene and
    feature (and the other columns) are the columns of that line; comment lines yield nothing; no line ends the loop early"""
    path, qualname, props = VEP, 'parse', ('C14',)
    NCOL = 14
    COLS = dict(uploaded_variation=0, location=1, allele=2, gene=3, feature=4, feature_type=5, cdna_position=7, cds_position=8, protein_position=9)
    assumptions = ('assumed: every data row of the VEP table has 14 tab-separated columns, none empty (VEP writes - for an absent value), so rstrip() removes the line '
                   'break only; a column split at , or / is modelled with one or two parts',)

    def setup(self, I):
        e = I.e
        st = types.SimpleNamespace(yielded=[])
        st.n = e.int('n_lines')
        e.assume(st.n >= 0)
        st.comment = z3.Function('vep_line_is_a_comment', I_, B_)
        st.single = z3.Function('vep_column_has_one_part', I_, I_, B_)
        st.dash = z3.Function('vep_column_is_a_dash', I_, I_, B_)
        if T14.first_loop_kind(I, self.path, self.qualname) != 'for':
            raise Unsupported('the reader is not written as `for line in handle` (this contract follows that form)')
        zz = lambda i: i if is_z3(i) else z3.IntVal(i)
        st.args = [FnView(st.n, lambda i: _VepLine(self, zz(i)), tag='lines of the VEP table')]
        self._cur = st
        return st

    @property
    def models(self):
        c = self

        def inst(reg):
            reg.ctor_('VEPRecord', lambda I, a, k: SymObj('VepRow14', **k) if not a else I.raise_('TypeError', 'positional'))
            reg.on_yield = lambda I, frame, v: c._cur.yielded.append(v)
        return (inst,)

    def head(self, I, env, k):
        self._cur.mark = len(self._cur.yielded)

    def step(self, I, env, k):
        st = self._cur
        new = st.yielded[st.mark:]
        if not new:
            return [('a-line-yields-nothing-only-as-a-comment', st.comment(k))]
        if len(new) != 1 or not (isinstance(new[0], SymObj) and new[0].cls == 'VepRow14'):
            return [('one-record-per-data-line', False)]
        r = new[0]
        obl = [('a-comment-line-yields-no-record', z3.Not(st.comment(k)))]
        for name, col in self.COLS.items():
            v = r.fields.get(name)
            ok = isinstance(v, _VepField) and v.col == col and v.part is None and z3.eq(z3.simplify(v.k), z3.simplify(k))
            obl.append((f'{name}-is-column-{col + 1}-of-this-line', z3.BoolVal(bool(ok))))
        cons = r.fields.get('consequences')
        ok = isinstance(cons, list) and all(isinstance(x, _VepField) and x.col == 6 and z3.eq(z3.simplify(x.k), z3.simplify(k)) for x in cons) and len(cons) >= 1
        obl.append(('consequences-are-the-parts-of-column-7-of-this-line', z3.BoolVal(bool(ok))))
        return obl

    @property
    def loops(self):
        return {0: LoopSpec(inv=lambda I, env, k: [], on_head=self.head, step=self.step, target_after='unknown',
                            on_break=lambda I, env, k: [('every-line-is-visited', False)],
                            on_exit=lambda I, env, n: [('all-lines-were-visited', n == self._cur.n)])}


# ----------------------------------------------------------------------------
# the text parser in front of the REDItools converter
# ----------------------------------------------------------------------------
from . import tables as T14


class _SubsSoFar:
    """all_subs while the substitutions column is read: the (first, second character) pairs of parts 0 .. upto-1 of that column, in order"""
    def __init__(self, row, upto, ok=True):
        self.row, self.upto, self.ok = row, upto, ok

    def sym_method(self, I, name, a, kw):
        if name == 'append' and len(a) == 1:
            v = a[0]
            good = (isinstance(v, tuple) and len(v) == 2 and all(isinstance(c, T14.TChar) for c in v)
                    and v[0].of(self.row, 7, ' ', self.upto, 0) and v[1].of(self.row, 7, ' ', self.upto, 1))
            self.ok = self.ok and bool(good)
            if good:
                I.e.prove('C14/red-table/a-substitution-of-more-than-two-characters-is-not-accepted', v[0].part.sym_len(I) <= 2)
            self.upto = self.upto + 1
            return None
        raise Unsupported(f'all_subs.{name}')


class _RedTable(Contract):
    """REDItoolsParser.parse(path, transcript_id_column): the first line (column header) is dropped; every further line yields exactly one record, in file
    order: region, position, reference, strand, coverage, mean quality and frequency are columns 1-6 and 9 of that line (numbers read as numbers), the base
    counts are the numbers of column 7 in order, the substitutions are the two characters of every part of column 8 in order (a part longer than two
    characters is a ValueError), the genomic coverage is the number in column 10 or None when that column holds no number, and the transcripts are the
    ENST-feature pairs of all parts of the transcript column (split at , & $, a trailing separator of the line removed first) - every part, in order,
    nothing merged; a transcript column beyond the last column is a ValueError; nothing else ends the loop early"""
    path, qualname, props = RED, 'parse', ('C14',)
    NCOL, TXCOL = 17, 16
    assumptions = ('assumed: every data row has all its columns, none empty, so rstrip() removes the line break only; int() / float() of a column is the number '
                   'written there (column 10 may hold a dash: int() fails); re.sub([,&$]$) removes one trailing separator of the line, which belongs to the last '
                   'column; re.split gives the parts of a column in order',)

    def setup(self, I):
        st = types.SimpleNamespace(yielded=[])
        st.tab = T14.Table(I, self.NCOL, 'REDItools_table')
        st.tab.maybe_not_a_number = (9,)
        if T14.first_loop_kind(I, self.path, self.qualname) != 'while':
            raise Unsupported('the reader is not written as `while line: ... line = next(handle, None)` (this contract follows that form)')
        st.args = [OpaqueStr(['table.tsv']), self.TXCOL]
        self._cur = st
        return st

    @property
    def models(self):
        c = self

        def inst(reg):
            reg.ext_('open', lambda I, a, k: c._cur.tab.file)
            reg.ctor_('REDItoolsRecord', lambda I, a, k: SymObj('RedRow14', **k) if not a else I.raise_('TypeError', 'positional arguments'))
            reg.on_yield = lambda I, frame, v: c._cur.yielded.append(v)

            def re_sub(I, a, k):
                if len(a) == 3 and a[0] == '[,&$]$' and a[1] == '' and isinstance(a[2], T14.TLine) and a[2].stripped:
                    return T14.TLine(a[2].tab, a[2].k, True, True)
                raise Unsupported(f're.sub{tuple(a)!r}')
            reg.ext_('re.sub', re_sub)

            def re_split(I, a, k):
                if len(a) == 2 and a[0] == r',|&|\$' and isinstance(a[1], T14.TField):
                    return T14.TParts(a[1].tab, a[1].k, a[1].col, '[,&$]', a[1].ops)
                raise Unsupported(f're.split{tuple(a)!r}')
            reg.ext_('re.split', re_split)
            reg.global_(RED, 'tuple', Builtin('tuple', lambda I, a, k: SymObj('TupleOfSubParts14', of=a[0]) if a and isinstance(a[0], T14.TSubParts)
                                              else (tuple(I.iter_concrete(a[0])) if a else ())))

            def comp(I, node, env, view, kind):
                from pyvc.interp import Env
                if kind == 'list' and isinstance(view, FnView) and view.tag == 'parts of a column' and not node.generators[0].ifs:
                    j = z3.Int('j_part')
                    sub = Env({}, env)
                    el0 = view.get(j)
                    I.assign(node.generators[0].target, el0, sub)
                    el = I.eval(node.elt, sub)
                    how = None
                    if isinstance(el, T14.TNumber) and el.kind == 'int' and el.part is not None and el.part[0] == view.parts.sep and z3.eq(el.part[1], j):
                        how = 'int'
                    elif isinstance(el, SymObj) and el.cls == 'TupleOfSubParts14' and el.fields['of'].part is el0 and el.fields['of'].sep == '-':
                        how = 'tuple-of-dash-parts'
                    return SymObj('Mapped14', parts=view.parts, how=how)
                return None
            reg.comprehension_hooks.append(comp)
        return (inst,)

    # outer loop: while line (driven by next)
    def havoc(self, I, env, k):
        st = self._cur
        env.set('line', T14.TLine(st.tab, k + 1))
        st.tab.file.pos = k + 2

    def inv(self, I, env, k):
        st = self._cur
        if not env.has('line'):
            raise Unsupported('the reader is not written as `while line: ... line = next(handle, None)` (this contract follows that shape)')
        ln = env.lookup('line')
        ok = isinstance(ln, T14.TLine) and not ln.stripped and T14.same(ln.k, T14.zz(k) + 1) and T14.same(st.tab.file.pos, T14.zz(k) + 2)
        return [('line-is-the-next-unread-line-of-the-file-after-the-header', z3.BoolVal(bool(ok)))]

    def head(self, I, env, k):
        self._cur.mark = len(self._cur.yielded)
        self._cur.row = T14.zz(k) + 1

    def step(self, I, env, k):
        st = self._cur
        row = T14.zz(k) + 1
        new = st.yielded[st.mark:]
        if len(new) != 1 or not (isinstance(new[0], SymObj) and new[0].cls == 'RedRow14'):
            return [('one-record-per-line', False)]
        f = new[0].fields
        cv = T14.check_value
        obl = []
        for name, col, kind in (('region', 0, 'text'), ('position', 1, 'int'), ('reference', 2, 'text'), ('strand', 3, 'int'), ('coverage_q', 4, 'int'),
                                ('mean_quality', 5, 'float'), ('frequency', 8, 'float')):
            obl.append((f'{name}-is-column-{col + 1}-of-this-line-as-{kind}', z3.BoolVal(bool(cv(f.get(name), row, col, kind)))))
        bc = f.get('base_count')
        obl.append(('base_count-are-the-numbers-of-column-7-in-order',
                    z3.BoolVal(bool(isinstance(bc, SymObj) and bc.cls == 'Mapped14' and bc.fields['how'] == 'int' and bc.fields['parts'].is_(row, 6, ', ', (('strip', ']['),))))))
        subs = f.get('all_subs')
        if isinstance(subs, _SubsSoFar) and subs.ok and T14.same(subs.row, row):
            obl.append(('all_subs-are-the-character-pairs-of-every-part-of-column-8-in-order', subs.upto == T14.TParts(st.tab, row, 7, ' ').count()))
        else:
            obl.append(('all_subs-are-the-character-pairs-of-every-part-of-column-8-in-order', False))
        g = f.get('g_coverage_q', 'missing')
        if g is None:
            obl.append(('g_coverage_q-is-None-only-when-column-10-holds-no-number', z3.Not(st.tab.is_number(row, z3.IntVal(9)))))
        else:
            obl.append(('g_coverage_q-is-the-number-in-column-10', z3.BoolVal(bool(cv(g, row, 9, 'int')))))
        tx = f.get('transcript_id')
        last = (('trailing-separator-removed',),) if self.TXCOL == self.NCOL - 1 else ()
        obl.append(('transcript_id-are-the-dash-split-pairs-of-every-part-of-the-transcript-column-in-order',
                    z3.BoolVal(bool(isinstance(tx, SymObj) and tx.cls == 'Mapped14' and tx.fields['how'] == 'tuple-of-dash-parts'
                                    and tx.fields['parts'].is_(row, self.TXCOL, '[,&$]', last)))))
        return obl

    # inner loop: for sub in fields[7].split(' ')
    def sub_havoc(self, I, env, j):
        env.set('all_subs', _SubsSoFar(self._cur.row, j))

    def sub_inv(self, I, env, j):
        v = env.lookup('all_subs') if env.has('all_subs') else None
        if isinstance(v, list) and not v and isinstance(j, int) and j == 0:
            return []
        ok = isinstance(v, _SubsSoFar) and v.ok and T14.same(v.upto, T14.zz(j)) and T14.same(v.row, self._cur.row)
        return [('all_subs-holds-the-pairs-of-the-parts-read-so-far', z3.BoolVal(bool(ok)))]

    def post_raise(self, I, st, exc):
        I.e.prove('C14/red-table/the-only-failures-are-ValueError-for-an-over-long-substitution-or-a-missing-transcript-column-and-IndexError-for-a-too-short-substitution',
                  z3.BoolVal(exc.cls in ('ValueError', 'IndexError')))

    @property
    def loops(self):
        return {0: LoopSpec(inv=self.inv, havoc=self.havoc, on_head=self.head, step=self.step,
                            on_break=lambda I, env, k: [('every-line-is-visited', False)],
                            on_exit=lambda I, env, k: [('all-lines-were-visited', T14.zz(k) + 1 >= self._cur.tab.n)]),
                1: LoopSpec(inv=self.sub_inv, havoc=self.sub_havoc, target_after='unknown',
                            on_break=lambda I, env, j: [('every-substitution-is-read', False)])}


@register
class RedTable(_RedTable):
    __doc__ = _RedTable.__doc__


@register
class RedTableNoColumn(_RedTable):
    """REDItoolsParser.parse with a transcript column beyond the last column of the table: a ValueError, no record"""
    TXCOL = 17

    def name(self):
        return super().name() + '[transcript column beyond the table]'

    def step(self, I, env, k):
        return [('no-record-without-a-transcript-column', False)]

    def post_raise(self, I, st, exc):
        I.e.prove('C14/red-table/a-missing-transcript-column-is-a-ValueError', z3.BoolVal(exc.cls in ('ValueError', 'IndexError')))


def _apply_event(chrom, a, b, allele):
    """the genomic event named by a VEP row, on plus-strand chromosome text (property statement)"""
    if allele == '-':
        return chrom[:a - 1] + chrom[b:], -(b - a + 1)
    w = b - a + 1
    if w == 2:
        return chrom[:a] + allele + chrom[a:], len(allele)
    return chrom[:a - 1] + allele + chrom[b:], len(allele) - w


class NativeVep(NativeCheck):
    name = 'vep_event'
    props = ('C14',)
    functions = (f'{VEP}:VEPRecord.convert_to_variant_record',)
    bounded_for = ''
    bound = ('CPython cross-check of the proved VEP contract: random chromosome (30-60 nt), gene, transcript (with/without '
             'cds_start_NF), both strands; every event kind (SNV, deletion, insertion between two bases, anchored '
             'insertion on one base, substitution of >= 3 bases) at random and at boundary positions')
    quick_budget_s = 10
    thorough_budget_s = 90

    def cases(self, rng, tier):
        yield dict(chrom='CAGTTGACCA', gene=(0, 10), tx=(0, 8), strand=1, nf=True, a=1, b=1, allele='TAC')   # K3 witness
        for _ in range(400 if tier != 'thorough' else 6000):
            L = rng.randint(30, 60)
            chrom = ''.join(rng.choice('ACGT') for _ in range(L))
            gs = rng.choice([0, rng.randint(0, 10)])
            ge = rng.choice([L, rng.randint(gs + 12, L)])
            ts = rng.choice([gs, rng.randint(gs, gs + 4)])
            te = rng.choice([ge, rng.randint(ts + 6, ge)])
            strand = rng.choice([1, -1])
            kind = rng.choice(['snv', 'del', 'ins', 'anch', 'sub'])
            a = rng.choice([ts + 1, ts + 2, te, te - 1, rng.randint(max(1, ts - 1), te + 1), gs + 1, ge])
            if kind == 'snv':
                b, allele = a, rng.choice('ACGT')
            elif kind == 'del':
                b, allele = a + rng.randint(0, 3), '-'
            elif kind == 'ins':
                b, allele = a + 1, ''.join(rng.choice('ACGT') for _ in range(rng.randint(1, 3)))
            elif kind == 'anch':
                b = a
                base = chrom[a - 1] if 1 <= a <= L else 'A'
                ins = ''.join(rng.choice('ACGT') for _ in range(rng.randint(1, 3)))
                allele = rng.choice([base + ins, ins + base])
            else:
                b = a + rng.randint(2, 4)
                allele = ''.join(rng.choice('ACGT') for _ in range(rng.randint(1, 5)))
            yield dict(chrom=chrom, gene=(gs, ge), tx=(ts, te), strand=strand, nf=rng.random() < 0.5,
                       a=a, b=b, allele=allele)

    def from_model(self, model):
        mi = realobj.model_int
        L, gs, ge, ts, te = (mi(model, k) for k in ('chrom_len', 'gene_start', 'gene_end', 'tx_first', 'tx_end'))
        a, b, al = mi(model, 'loc_a'), mi(model, 'loc_b'), mi(model, 'allele_len')
        if None in (L, gs, ge, ts, te, a, b, al) or not (0 < L <= 400 and 0 < al <= 40):
            return None
        ch = realobj.model_array(model, 'chrom_ch', range(L)) or [65] * L
        av = realobj.model_array(model, 'allele_ch', range(al)) or [65] * al
        fix = lambda c: chr(c) if chr(c) in 'ACGT' else 'A'
        allele = '-' if (al == 1 and av[0] == DASH) else ''.join(fix(c) for c in av)
        return dict(chrom=''.join(fix(c) for c in ch), gene=(gs, ge), tx=(ts, te), strand=mi(model, 'gene_strand', 1),
                    nf=str(model.get('cds_start_NF')) == 'True', a=a, b=b, allele=allele)

    def check(self, inp):
        from moPepGen.parser.VEPParser import VEPRecord
        from moPepGen.err import TranscriptionStartSiteMutationError, TranscriptionStopSiteMutationError
        chrom, (gs, ge), (ts, te), strand = inp['chrom'], inp['gene'], inp['tx'], inp['strand']
        a, b, allele = inp['a'], inp['b'], inp['allele']
        anno = realobj.anno_from([dict(id='G', start=gs, end=ge, strand=strand, transcripts=['T'])],
                                 [dict(id='T', gene='G', strand=strand, exons=[(ts, te)],
                                       tags=['cds_start_NF'] if inp['nf'] else [])])
        genome = realobj.genome_from({'chr1': chrom})
        loc = f'chr1:{a}' if a == b else f'chr1:{a}-{b}'
        rec = VEPRecord(uploaded_variation='.', location=loc, allele=allele, gene='G', feature='T',
                        feature_type='Transcript', consequences=['x'], cdna_position='', cds_position='',
                        protein_position='', amino_acids=('', ''), codons=('', ''), existing_variation='-', extra={})
        G = chrom[gs:ge] if strand == 1 else _rc(chrom[gs:ge])
        try:
            v = rec.convert_to_variant_record(anno, genome)
        except (TranscriptionStartSiteMutationError, TranscriptionStopSiteMutationError, ValueError, IndexError):
            return None      # rejected: the proved contract says when; nothing is mis-placed
        s, e = int(v.location.start), int(v.location.end)
        call = f'VEPRecord({loc}, {allele}).convert_to_variant_record on gene {gs}-{ge} strand {strand} tx {ts}-{te}'
        if not (0 <= s < e <= len(G)):
            sig = 'anchored-insertion-at-gene-position-0' if s == -1 and a == b and len(allele) > 1 else 'location-outside-gene'
            return dict(call=call, observed=f'location [{s},{e}) ref={v.ref} alt={v.alt}', expected='0 <= start < end <= len(gene)',
                        signature=sig)
        if str(v.ref) != G[s:e]:
            return dict(call=call, observed=f'ref={v.ref}', expected=f'gene[{s}:{e}]={G[s:e]}', signature='ref-mismatch')
        new_chrom, delta = _apply_event(chrom, a, b, allele)
        exp = new_chrom[gs:ge + delta] if strand == 1 else _rc(new_chrom[gs:ge + delta])
        got = G[:s] + str(v.alt) + G[e:]
        if got != exp:
            return dict(call=call, observed=got, expected=exp, signature='applied-record-differs-from-re-extracted-gene')
        return None

    def nontrivial(self, inp):
        return (inp['strand'], inp['allele'] == '-', inp['b'] - inp['a'], len(inp['allele']) > 1, inp['nf'],
                inp['a'] - inp['tx'][0], inp['tx'][1] - inp['b'])


class NativeRed(NativeCheck):
    name = 'reditools_sites'
    props = ('C14',)
    functions = (f'{RED}:REDItoolsRecord.convert_to_variant_records', f'{RED}:REDItoolsRecord.get_valid_subs')
    bounded_for = ''
    bound = ('CPython cross-check of the proved REDItools contracts: random gene with 1-3 transcripts (<= 4 exons), both strands, '
             'every genomic position around the gene, random base counts / coverage / thresholds')
    quick_budget_s = 10
    thorough_budget_s = 90

    def cases(self, rng, tier):
        yield dict(txs=[[(150, 350)]], gene=(100, 400), strand=1, position=121, counts=[10, 0, 10, 0], gcov=-1,
                   subs=['AG'], th=[1, 0.1, 1, 1])          # F7 witness (fixed)
        yield dict(txs=[[(150, 350)]], gene=(100, 400), strand=1, position=361, counts=[10, 0, 10, 0], gcov=-1,
                   subs=['AG'], th=[1, 0.1, 1, 1])
        yield dict(txs=[[(20, 40)], [(10, 50)]], gene=(20, 40), gene2=(5, 60), tx_gene=[0, 1], strand=1, position=31,
                   counts=[10, 0, 10, 0], gcov=-1, subs=['AG'], th=[1, 0.1, 1, 1])     # overlapping genes
        for _ in range(300 if tier != 'thorough' else 5000):
            txs = [realobj.random_exons(rng, 10, 60, 4) for _ in range(rng.randint(1, 3))]
            gs = min(t[0][0] for t in txs) - rng.randint(0, 2)
            ge = max(t[-1][1] for t in txs) + rng.randint(0, 2)
            if rng.random() < 0.4:
                yield dict(txs=txs, gene=(gs, ge), gene2=(gs - rng.randint(1, 5), ge + rng.randint(0, 5)),
                           tx_gene=[rng.randint(0, 1) for _ in txs], strand=rng.choice([1, -1]), position=rng.randint(gs - 1, ge + 2),
                           counts=[5, 5, 5, 5], gcov=-1, subs=['AG'], th=[1, 0.1, 1, 1])
                continue
            counts = [rng.choice([0, 1, 2, 5, 20]) for _ in range(4)]
            if sum(counts) == 0:
                counts[0] = 3
            yield dict(txs=txs, gene=(gs, ge), strand=rng.choice([1, -1]), position=rng.randint(gs - 1, ge + 2),
                       counts=counts, gcov=rng.choice([-1, None, 0, 3, 10]),
                       subs=rng.sample(['AG', 'AC', 'AT', 'TC', 'GA'], rng.randint(0, 3)),
                       th=[rng.choice([0, 1, 3, 6]), rng.choice([0.0, 0.1, 0.25, 0.5, 1.0]), rng.choice([0, 5, 10, 30]),
                           rng.choice([0, 3, 5, 11])])

    def check(self, inp):
        from moPepGen.parser.REDItoolsParser import REDItoolsRecord
        gs, ge = inp['gene']
        strand = inp['strand']
        ids = [f'T{i}' for i in range(len(inp['txs']))]
        genes = [(gs, ge)] + ([tuple(inp['gene2'])] if inp.get('gene2') else [])
        tx_gene = inp.get('tx_gene') or [0] * len(ids)
        anno = realobj.anno_from([dict(id=f'G{q}', start=a_, end=b_, strand=strand,
                                       transcripts=[i for i, g_ in zip(ids, tx_gene) if g_ == q]) for q, (a_, b_) in enumerate(genes)],
                                 [dict(id=i, gene=f'G{g_}', strand=strand, exons=[tuple(x) for x in ex])
                                  for i, ex, g_ in zip(ids, inp['txs'], tx_gene)])
        pos = inp['position']
        rec = REDItoolsRecord(region='chr1', position=pos, reference='A', strand=strand, coverage_q=30, mean_quality=30.0,
                              base_count=list(inp['counts']), all_subs=[(s[0], s[1]) for s in inp['subs']], frequency=0.5,
                              g_coverage_q=inp['gcov'], transcript_id=[(i, 'transcript') for i in ids] + [('G0', 'gene')])
        a, f, r, d = inp['th']
        total = sum(inp['counts'])
        order = 'ACGT'
        gate = total >= r and (inp['gcov'] == -1 or (inp['gcov'] is not None and inp['gcov'] >= d))
        oksubs = [s for s in inp['subs'] if gate and inp['counts'][order.index(s[1])] >= a
                  and inp['counts'][order.index(s[1])] / total >= f]
        exp = []
        for i, ex, g_ in zip(ids, inp['txs'], tx_gene):
            if any(s <= pos - 1 < e for s, e in ex):
                g0, g1 = genes[g_]
                gp = pos - 1 - g0 if strand == 1 else g1 - 1 - (pos - 1)
                exp += [(i, gp, gp + 1, s[0], s[1]) for s in oksubs]
        try:
            got = rec.convert_to_variant_records(anno, a, f, r, d)
        except ValueError as ex_:
            got = ('ValueError', str(ex_))
        if not isinstance(got, tuple):
            got = [(v.attrs['TRANSCRIPT_ID'], int(v.location.start), int(v.location.end), v.ref, v.alt) for v in got]
        if got != exp:
            return dict(call=f'convert_to_variant_records(position={pos})', observed=str(got)[:300], expected=str(exp)[:300],
                        signature='records-differ-from-exonic-transcripts-x-accepted-substitutions')
        return None

    def nontrivial(self, inp):
        return (inp['strand'], len(inp['txs']), inp['gcov'], tuple(inp['th']), len(inp['subs']))


class NativeTableParsers(NativeCheck):
    name = 'table_parsers'
    props = ('C14',)
    functions = ('moPepGen/parser/VEPParser.py:parse', 'moPepGen/parser/REDItoolsParser.py:parse')
    bounded_for = ('the text parsers in front of the record converters: every data row of a VEP / REDItools table becomes one record carrying the columns of that '
                   'row - also rows that share id, location and transcript and differ in the allele, and REDItools rows that list a transcript several times '
                   '(ENST-transcript, ENST-exon, ...), whose entries all stay, in order')
    bound = 'two hand-made tables (VEP: 5 rows incl. a tri-allelic site; REDItools: 3 rows incl. repeated transcripts) through the real parse functions'
    quick_budget_s = 10
    thorough_budget_s = 10

    def cases(self, rng, tier):
        yield dict(table='vep')
        yield dict(table='reditools')

    def check(self, inp):
        import tempfile, shutil, os
        d = tempfile.mkdtemp(prefix='verif_c14t_')
        try:
            if inp['table'] == 'vep':
                from moPepGen.parser import VEPParser
                rows = [['rs1', 'chr22:100', 'A', 'ENSG1', 'ENST1', 'Transcript', 'missense_variant', '10', '10', '4', 'K/N', 'aaG/aaA', '-'],
                        ['rs1', 'chr22:100', 'T', 'ENSG1', 'ENST1', 'Transcript', 'missense_variant', '10', '10', '4', 'K/I', 'aaG/aaT', '-'],
                        ['rs1', 'chr22:100', 'C', 'ENSG1', 'ENST1', 'Transcript', 'synonymous_variant,splice_region_variant', '10', '10', '4', 'K', 'aaG/aaC', 'rs99'],
                        ['rs1', 'chr22:100', 'A', 'ENSG1', 'ENST2', 'Transcript', 'missense_variant', '10', '10', '4', 'K/N', 'aaG/aaA', '-'],
                        ['rs2', 'chr22:200-201', '-', 'ENSG1', 'ENST1', 'Transcript', 'frameshift_variant', '20-21', '20-21', '7', 'KL/X', 'aaGCtt/aatt', '-']]
                path = os.path.join(d, 'vep.tsv')
                with open(path, 'w') as fh:
                    fh.write('## a comment\n#Uploaded_variation\tLocation\tAllele\n' + ''.join('\t'.join(r) + '\n' for r in rows))
                with open(path) as fh:
                    got = [(r.uploaded_variation, r.location, r.allele, r.gene, r.feature, tuple(r.consequences)) for r in VEPParser.parse(fh)]
                want = [(r[0], r[1], r[2], r[3], r[4], tuple(r[6].split(','))) for r in rows]
            else:
                from moPepGen.parser import REDItoolsParser
                head = 'Region\tPosition\tReference\tStrand\tCoverage-q30\tMeanQ\tBaseCount[A,C,G,T]\tAllSubs\tFrequency\tgCoverage-q30\tgMeanQ\tgBaseCount[A,C,G,T]\tgAllSubs\tgFrequency\tfeat\tgid\ttid'
                tids = ['ENST1-transcript,ENST1-exon,ENST1-CDS', 'ENST2-exon,ENST2-transcript&ENST3-transcript', 'ENST4-transcript']
                rows = [['chr22', str(100 + i), 'A', '1', '30', '35.0', '[10, 0, 20, 0]', 'AG', '0.67', '-', '-', '-', '-', '-', 'x', 'ENSG1', t] for i, t in enumerate(tids)]
                path = os.path.join(d, 'red.tsv')
                with open(path, 'w') as fh:
                    fh.write(head + '\n' + ''.join('\t'.join(r) + '\n' for r in rows))
                got = [(r.region, r.position, [tuple(x) for x in r.transcript_id]) for r in REDItoolsParser.parse(path, transcript_id_column=16)]
                import re
                want = [('chr22', 100 + i, [tuple(x.split('-')) for x in re.split(r',|&|\$', t)]) for i, t in enumerate(tids)]
                # the header line: the real parser skips the first line
            if got != want:
                return dict(call=f'{inp["table"]} table through parse()', observed=str(got)[:400], expected=str(want)[:400], signature='row-lost-or-changed-by-the-table-parser')
        finally:
            shutil.rmtree(d, ignore_errors=True)
        return None

    def nontrivial(self, inp):
        return str(inp)


class NativeVepCommand(NativeCheck):
    name = 'vep_rows_through_the_command'
    props = ('C14',)
    functions = ('moPepGen/cli/parse_vep.py:parse_vep',)
    bounded_for = ('parseVEP emits, for every row of the table, what the converter under contract gives for that row and its own transcript - no more, no less: '
                   'the same event reported for sibling transcripts of different extent is converted (or rejected) per transcript, not once per gene')
    bound = ('random tables (1-6 events x 2-3 transcripts of one gene with different starts/ends, both strands) through the real command with the '
             'reference loader replaced by in-memory objects; the expected lines come from VEPRecord.convert_to_variant_record called per row')
    quick_budget_s = 20
    thorough_budget_s = 90

    def cases(self, rng, tier):
        # the accepting transcript first, the rejecting sibling second
        yield dict(chrom='ACGTTGCAAGCTTGACCATGGTACCGATTGCAAGGCTTAACCGGTTAGCA', gene=(0, 50), strand=1,
                   txs=[(0, 50), (20, 50)], events=[(10, 10, 'T'), (30, 30, 'A')], order='tx-major')
        yield dict(chrom='ACGTTGCAAGCTTGACCATGGTACCGATTGCAAGGCTTAACCGGTTAGCA', gene=(0, 50), strand=-1,
                   txs=[(0, 50), (0, 30)], events=[(40, 40, 'T'), (12, 13, '-')], order='event-major')
        for _ in range(40 if tier != 'thorough' else 600):
            L = rng.randint(40, 70)
            chrom = ''.join(rng.choice('ACGT') for _ in range(L))
            gs, ge = rng.randint(0, 4), L - rng.randint(0, 4)
            txs = [(gs, ge)]
            for _ in range(rng.randint(1, 2)):
                ts = rng.choice([gs, rng.randint(gs, gs + 15)])
                txs.append((ts, rng.choice([ge, rng.randint(ts + 10, ge)])))
            rng.shuffle(txs)
            events = []
            for _ in range(rng.randint(1, 6)):
                a = rng.randint(gs + 1, ge)
                kind = rng.choice(['snv', 'del', 'ins'])
                if kind == 'snv':
                    events.append((a, a, rng.choice([c for c in 'ACGT' if c != chrom[a - 1]])))
                elif kind == 'del':
                    events.append((a, min(ge, a + rng.randint(0, 2)), '-'))
                else:
                    events.append((a, a + 1, ''.join(rng.choice('ACGT') for _ in range(rng.randint(1, 3)))))
            yield dict(chrom=chrom, gene=(gs, ge), strand=rng.choice([1, -1]), txs=txs, events=events,
                       order=rng.choice(['tx-major', 'event-major']))

    def check(self, inp):
        import argparse, tempfile, shutil, importlib
        from pathlib import Path
        from moPepGen.parser.VEPParser import VEPRecord
        from moPepGen import seqvar
        mod = importlib.import_module('moPepGen.cli.parse_vep')
        common = importlib.import_module('moPepGen.cli.common')
        chrom, (gs, ge), strand = inp['chrom'], inp['gene'], inp['strand']
        names = [f'T{i + 1}' for i in range(len(inp['txs']))]
        anno = realobj.anno_from([dict(id='G', start=gs, end=ge, strand=strand, transcripts=names)],
                                 [dict(id=n, gene='G', strand=strand, exons=[t]) for n, t in zip(names, inp['txs'])])
        genome = realobj.genome_from({'chr1': chrom})
        pairs = [(e, n) for e in inp['events'] for n in names] if inp['order'] == 'event-major' else [(e, n) for n in names for e in inp['events']]
        rows, want = [], []
        for (a, b, allele), n in pairs:
            loc = f'chr1:{a}' if a == b else f'chr1:{a}-{b}'
            rows.append(['.', loc, allele, 'G', n, 'Transcript', 'x', '-', '-', '-', '-', '-', '-'])
            rec = VEPRecord(uploaded_variation='.', location=loc, allele=allele, gene='G', feature=n, feature_type='Transcript', consequences=['x'],
                            cdna_position='-', cds_position='-', protein_position='-', amino_acids=('', ''), codons=('', ''), existing_variation='-', extra={})
            try:
                v = rec.convert_to_variant_record(anno, genome)
            except Exception:       # rejected for this transcript (the proved contract says when)
                continue
            want.append((n, int(v.location.start), int(v.location.end), str(v.ref), str(v.alt)))
        d = Path(tempfile.mkdtemp(prefix='verif_c14c_'))
        saved = common.load_references
        try:
            src = d / 'in.tsv'
            src.write_text('## x\n#Uploaded_variation\tLocation\tAllele\n' + ''.join('\t'.join(r) + '\n' for r in rows))
            top = argparse.ArgumentParser(prog='moPepGen')
            sp = mod.add_subparser_parse_vep(top.add_subparsers(dest='command'))
            args = top.parse_args([sp.prog.split()[-1], '-i', str(src), '-o', str(d / 'out.gvf'), '--source', 'gSNP', '-g', str(d / 'none.fa'),
                                   '-a', str(d / 'none.gtf'), '--skip-failed', '--quiet'])
            common.load_references = lambda *a, **k: (genome, anno, None, None)
            args.func(args)
            got = []
            if (d / 'out.gvf').exists():
                with open(d / 'out.gvf') as fh:
                    for r in seqvar.io.parse(fh):
                        got.append((r.attrs['TRANSCRIPT_ID'], int(r.location.start), int(r.location.end), str(r.ref), str(r.alt)))
            if sorted(got) != sorted(want):
                extra = sorted(set(got) - set(want))
                lost = sorted(set(want) - set(got))
                sig = 'record-emitted-for-a-transcript-whose-row-does-not-convert' if extra else ('row-lost-by-the-command' if lost else 'row-multiplicity-changed-by-the-command')
                return dict(call=f'parseVEP on {len(rows)} rows ({inp["order"]}) of gene {gs}-{ge} strand {strand}, transcripts {inp["txs"]}, events {inp["events"]}',
                            observed=f'extra {extra[:4]} lost {lost[:4]}', expected=f'{len(want)} records, one per convertible row', signature=sig)
        finally:
            common.load_references = saved
            shutil.rmtree(d, ignore_errors=True)
        return None

    def nontrivial(self, inp):
        return (inp['strand'], len(inp['txs']), len(inp['events']), inp['order'])


NATIVE = [NativeVep(), NativeRed(), NativeTableParsers(), NativeVepCommand()]
