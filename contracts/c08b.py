"""C08 — call_noncoding_peptide_main: how one transcript is turned into peptide records and ORF records."""
from __future__ import annotations
import types
import z3
from pyvc.contract import Contract, register
from pyvc.core import Unsupported, as_bool
from pyvc.interp import LoopSpec, PyRaise
from pyvc.values import *

CNO = 'moPepGen/cli/call_novel_orf.py'
I_, B_ = z3.IntSort(), z3.BoolSort()


class _LabelSet:
    """peptide_map[seq]: the set of label texts collected for one sequence"""
    def __init__(self, owner, m):
        self.owner, self.m = owner, m

    def sym_method(self, I, name, a, k):
        if name == 'add':
            self.owner._cur.adds.append((self.m, a[0]))
            return None
        raise Unsupported(f'label set .{name}')


class _PeptideMap:
    def __init__(self, owner):
        self.owner = owner

    def sym_contains(self, I, key):
        b = I.e.bool('sequence_seen_before')
        self.last = (key, b)
        return b

    def sym_getitem(self, I, key):
        return _LabelSet(self.owner, key.fields['m'])

    def sym_setitem(self, I, key, val):
        st = self.owner._cur
        if not (isinstance(val, set) or isinstance(val, list)) or len(val) != 1:
            raise Unsupported('peptide_map[seq] = something else than a one-element set')
        last = getattr(self, 'last', None)
        I.e.prove('C08/main/a-new-label-set-is-started-only-for-a-sequence-not-seen-before (earlier labels are never overwritten)',
                  z3.Not(last[1]) if last is not None and last[0] is key else False)
        st.adds.append((key.fields['m'], list(val)[0]))

    def sym_method(self, I, name, a, k):
        st = self.owner._cur
        if name == 'items':
            zz = lambda i: i if is_z3(i) else z3.IntVal(i)
            return FnView(st.n_seq, lambda m: (SymObj('SeqTok', m=zz(m)), SymObj('LabelsOf', m=zz(m))), tag='peptide_map.items()')
        raise Unsupported(f'peptide_map.{name}')


@register
class NoncodingMain(Contract):
    """one transcript of callNovelORF: its sequence is read from its own chromosome; the graph is built from that sequence as a transcript
    without known ORF (cds_start_nf) with the run's cleavage parameters; peptides are called without requiring variants, with ORF checking,
    with the canonical pool as denylist and the requested ORF assignment / W>F flag; every called sequence becomes exactly one record whose
    header joins exactly the labels called for it; the ORF records come from get_orf_sequences on the same graph and sequence"""
    path, qualname, props = CNO, 'call_noncoding_peptide_main', ('C08',)
    declared_raises = ['ReferenceSeqnameNotFoundError']
    flavor = 'novel'
    assumptions = ('havoc: ThreeFrameTVG / PeptideVariantGraph construction, translation, cleavage and traversal (not under contract); '
                   'get_orf_sequences is its own contract (OrfSequences)',)

    def setup(self, I):
        e = I.e
        st = types.SimpleNamespace(log=[], adds=[], records=[], set_adds=[], orf_call=None)
        st.w2f = e.bool('w2f_reassignment')
        st.params, st.canon, st.orf_assignment = SymObj('CleavageParams8'), SymObj('CanonicalPool8'), SymObj('OrfAssignment8')
        st.known_chrom = e.bool('chromosome_in_genome')
        st.chromseq = SymObj('Chrom8')
        st.gene = SymObj('GeneId8')
        st.tx = SymObj('TxModel8', transcript=SymObj('Tx8', location=SymObj('Loc8', seqname=SymObj('ChromName8'))), gene_id=st.gene, is_protein_coding=e.bool('tx_is_protein_coding'))
        st.genome = SymObj('Genome8')
        st.n_seq = e.int('n_sequences')
        e.assume(st.n_seq >= 0)
        st.nlab = z3.Function('n_labels_of_sequence', I_, I_)
        st.args = []
        st.kwargs = dict(tx_id='ENST_T', tx_model=st.tx, genome=st.genome, canonical_peptides=st.canon, cleavage_params=st.params,
                         orf_assignment=st.orf_assignment, w2f_reassignment=st.w2f)
        if self.flavor == 'alt':
            st.tx.fields['transcript'].fields['chrom'] = st.tx.fields['transcript'].fields['location'].fields['seqname']
            st.kwargs = dict(tx_id='ENST_T', tx_model=st.tx, genome=st.genome, anno=SymObj('Anno8'), cleavage_params=st.params,
                             w2f_reassignment=st.w2f, sec_truncation=e.bool('sec_truncation'))
        self._cur = st
        return st

    @property
    def models(self):
        c = self

        def inst(reg):
            S = lambda: c._cur
            zz = lambda i: i if is_z3(i) else z3.IntVal(i)

            def genome_get(I, o, key):
                st = S()
                I.e.prove('C08/main/chromosome-of-this-transcript-looked-up', key is st.tx.fields['transcript'].fields['location'].fields['seqname'])
                if not I.e.branch(st.known_chrom, 'chromosome known'):
                    I.raise_('KeyError', 'chrom')
                return st.chromseq
            reg.protocol_('Genome8', '__getitem__', genome_get)

            def get_seq(I, o, a, k):
                I.e.prove('C08/main/sequence-read-from-the-chromosome-of-the-transcript', len(a) == 1 and a[0] is S().chromseq)
                S().seq = SymObj('TxSeq8')
                return S().seq
            reg.method_('TxModel8', 'get_transcript_sequence', get_seq)

            def tvg(I, a, k):
                st = S()
                if c.flavor == 'alt':
                    return SymObj('DGraph8')        # the graph arguments of callAltTranslation are the obligations of AltTranslationMain (contracts/c09.py)
                I.e.prove('C08/main/graph-built-from-this-transcript-as-one-without-known-orf',
                          k.get('seq') is st.seq and k.get('_id') == 'ENST_T' and k.get('cds_start_nf') is True and k.get('has_known_orf') is False
                          and k.get('cleavage_params') is st.params and k.get('gene_id') is st.gene
                          and k.get('coordinate_feature_type') == 'transcript' and k.get('coordinate_feature_id') == 'ENST_T' and not a)
                # nothing else is told to the graph: a novel-ORF transcript is searched to its very end (no mrna_end_nf truncation),
                # which is what the ORF FASTA of the same command lists
                I.e.prove('C08/main/graph-gets-no-further-options',
                          set(k) == {'seq', '_id', 'cds_start_nf', 'has_known_orf', 'cleavage_params', 'gene_id', 'coordinate_feature_type', 'coordinate_feature_id'})
                return SymObj('DGraph8')
            reg.ext_('svgraph.ThreeFrameTVG', tvg)
            reg.ctor_('ThreeFrameTVG', tvg)

            def log(name):
                def h(I, o, a, k):
                    S().log.append((name, a, k))
                    if name == 'translate':
                        S().pgraph = SymObj('PGraph8')
                        return S().pgraph
                    return None
                return h
            for nm in ('init_three_frames', 'translate', 'gather_sect_variants'):
                reg.method_('DGraph8', nm, log(nm))
            reg.method_('TxModel8', 'is_cds_start_nf', lambda I, o, a, k: I.e.bool('cds_start_nf'))
            reg.method_('TxModel8', 'is_mrna_end_nf', lambda I, o, a, k: I.e.bool('mrna_end_nf'))
            reg.method_('PGraph8', 'create_cleavage_graph', log('create_cleavage_graph'))

            def call(I, o, a, k):
                st = S()
                if c.flavor == 'alt':
                    return mk_anno()
                I.e.prove('C08/main/frames-translated-and-cleaved-before-calling', [x[0] for x in st.log] == ['init_three_frames', 'translate', 'create_cleavage_graph'])
                I.e.prove('C08/main/peptides-called-without-variants-required-against-the-canonical-pool',
                          k.get('check_variants') is False and k.get('check_orf') is True and k.get('denylist') is st.canon
                          and k.get('orf_assignment') is st.orf_assignment and k.get('w2f') is st.w2f and k.get('check_external_variants') is False and not a)
                return mk_anno()

            def mk_anno():
                st = S()
                anno = types.SimpleNamespace()
                anno.sym_method = lambda I2, name, a2, k2: FnView(st.n_seq, lambda m: (SymObj('SeqTok', m=zz(m)), FnView(st.nlab(zz(m)), lambda t, m=m: SymObj('AnnoLabel', label=SymObj('LabelText', m=zz(m), t=zz(t))), tag='labels')), tag='peptide_anno.items()') \
                    if name == 'items' else (_ for _ in ()).throw(Unsupported(name))
                return anno
            reg.method_('PGraph8', 'call_variant_peptides', call)
            reg.protocol_('SeqTok', '__eq__', lambda I, a, b: a.fields['m'] == b.fields['m'] if isinstance(b, SymObj) and b.cls == 'SeqTok' else False)

            reg.ctor_('ReferenceSeqnameNotFoundError', lambda I, a, k: SymExc('ReferenceSeqnameNotFoundError', list(a)))

            def mk_record(I, a, k):
                r = SymObj('AminoAcidSeqRecord', **k)
                S().records.append(r)
                return r
            reg.ctor_('AminoAcidSeqRecord', mk_record)
            reg.ext_('aa.AminoAcidSeqRecord', mk_record)

            def orfs(I, a, k):
                S().orf_call = k
                return SymObj('Orfs8')
            reg.func_(CNO, 'get_orf_sequences', orfs)
        return (inst,)

    # loop 0: for seq, annotated_labels in peptide_anno.items()   loop 1: for label in annotated_labels
    def havoc0(self, I, env, k):
        env['peptide_map'] = _PeptideMap(self)

    def head1(self, I, env, k):
        self._cur.mark = len(self._cur.adds)

    def step1(self, I, env, k):
        st = self._cur
        new = st.adds[st.mark:]
        seq = env['seq']
        ok = len(new) == 1 and isinstance(new[0][1], SymObj) and new[0][1].cls == 'LabelText'
        items = [('label-collected-once', ok)]
        if ok:
            items.append(('under-its-own-sequence-as-its-own-text', z3.And(new[0][0] == seq.fields['m'], new[0][1].fields['m'] == seq.fields['m'], new[0][1].fields['t'] == k)))
        return items

    # loop 2: for seq, labels in peptide_map.items()
    def havoc2(self, I, env, k):
        c = self

        class Peps:
            def sym_method(s_, I2, name, a, kw):
                if name == 'add':
                    c._cur.set_adds.append(a[0])
                    return None
                raise Unsupported(name)
        env['peptides'] = Peps()
        self._cur.peps = env['peptides']

    def head2(self, I, env, k):
        st = self._cur
        st.m2 = (len(st.records), len(st.set_adds))

    def step2(self, I, env, k):
        st = self._cur
        recs, adds = st.records[st.m2[0]:], st.set_adds[st.m2[1]:]
        ok = len(recs) == 1 and len(adds) == 1 and adds[0] is recs[0]
        items = [('one-record-per-sequence-added-once', ok)]
        if ok:
            r = recs[0]
            d = r.fields.get('description')
            good = isinstance(d, OpaqueStr) and len(d.parts) == 3 and d.parts[0] == 'join' and d.parts[1] == ' ' and isinstance(d.parts[2], SymObj) and d.parts[2].cls == 'LabelsOf'
            items.append(('header=labels-of-this-sequence-joined-by-the-entry-separator',
                          z3.And(d.parts[2].fields['m'] == k, r.fields['seq'].fields['m'] == k) if good and isinstance(r.fields.get('seq'), SymObj) else False))
            items.append(('name-carries-the-header', r.fields.get('name') is d))
        return items

    @property
    def loops(self):
        T = lambda I, env, k: []
        brk = lambda what: (lambda I, env, k: [(what, False)])
        st = self._cur
        return {0: LoopSpec(inv=T, havoc=self.havoc0, on_break=brk('every-called-sequence-is-collected'), target_after='unknown',
                            on_exit=lambda I, env, n: [('all-called-sequences-were-visited', n == st.n_seq)]),
                1: LoopSpec(inv=T, havoc=lambda I, env, k: None, on_head=self.head1, step=self.step1, on_break=brk('every-label-is-collected'), target_after='unknown',
                            on_exit=lambda I, env, n: [('all-labels-of-the-sequence-were-visited', n == st.nlab(env['seq'].fields['m']))]),
                2: LoopSpec(inv=T, havoc=self.havoc2, on_head=self.head2, step=self.step2, on_break=brk('every-collected-sequence-becomes-a-record'), target_after='unknown',
                            on_exit=lambda I, env, n: [('all-collected-sequences-were-visited', n == st.n_seq)])}

    def post_return(self, I, st, ret):
        e = I.e
        if self.flavor == 'alt':
            e.prove('C09/main/returns-the-collected-records', ret is getattr(st, 'peps', ret) or isinstance(ret, set))
            return
        ok = isinstance(ret, tuple) and len(ret) == 2
        e.prove('C08/main/returns-peptides-and-orfs', ok)
        if not ok:
            return
        k = st.orf_call
        e.prove('C08/main/orfs-from-the-same-graph-and-sequence', k is not None and k.get('pgraph') is st.pgraph and k.get('tx_seq') is st.seq and k.get('tx_id') == 'ENST_T'
                and k.get('gene_id') is st.gene and k.get('exclude_canonical_orf') is False and isinstance(ret[1], SymObj) and ret[1].cls == 'Orfs8')
        e.prove('C08/main/returns-the-collected-records', ret[0] is getattr(st, 'peps', ret[0]) or isinstance(ret[0], set))

    def post_raise(self, I, st, exc):
        want = 'KeyError' if self.flavor == 'alt' else 'ReferenceSeqnameNotFoundError'
        I.e.prove(f'{"C09" if self.flavor == "alt" else "C08"}/main/raise/only-for-a-chromosome-missing-from-the-genome', z3.And(exc.cls == want, z3.Not(st.known_chrom)))




@register
class AltTranslationCollect(NoncodingMain):
    """callAltTranslation collects the called peptides like callNovelORF does: every called sequence becomes exactly one record whose header
    joins exactly the labels called for it (no label set is overwritten, no sequence or label is skipped). The graph arguments are the
    obligations of AltTranslationMain (contracts/c09.py)"""
    path, qualname, props = 'moPepGen/cli/call_alt_translation.py', 'call_alt_translation_main', ('C09',)
    declared_raises = ['KeyError']       # a chromosome missing from the genome is not wrapped by this command
    flavor = 'alt'



# ----------------------------------------------------------------------------
# the biotype lists of callNovelORF / callVariant
# ----------------------------------------------------------------------------
CMN = 'moPepGen/cli/common.py'


class _BiotypeList:
    """a list filled with the right-stripped lines of one file"""
    def __init__(self, owner, name):
        self.owner, self.name, self.src, self.mixed = owner, name, None, False

    def sym_method(self, I, name, a, k):
        if name == 'append' and isinstance(a[0], SymObj) and a[0].cls == 'StrippedLine8':
            src = a[0].fields['path']
            if self.src is not None and self.src is not src:
                self.mixed = True
            self.src = src
            self.owner._cur.appends.append((self.name, a[0]))
            return None
        raise Unsupported(f'{self.name}.{name}')

    def sym_truth(self, I):
        return self.owner._cur.nonempty(self.name)


@register
class LoadBiotypes(Contract):
    """the inclusion list holds the lines of the inclusion file (empty without the option); the exclusion list holds the lines of the
    exclusion file when one is given - also when that file is empty, which is how the packaged default list is switched off - and the
    lines of the packaged default list only when no exclusion file is given"""
    path, qualname, props = CMN, 'load_inclusion_exclusion_biotypes', ('C08',)
    assumptions = ('assumed: iterating an open text file yields its lines; pkg_resources.resource_filename names the packaged default list',)

    def setup(self, I):
        e = I.e
        st = types.SimpleNamespace(appends=[], opened=[])
        st.has_inc = e.branch(e.bool('inclusion_given'), 'inclusion')
        st.has_exc = e.branch(e.bool('exclusion_given'), 'exclusion')
        st.inc_path, st.exc_path, st.default_path = SymObj('Path8', n='inclusion'), SymObj('Path8', n='exclusion'), SymObj('Path8', n='default')
        st.nlines = {id(st.inc_path): e.int('n_lines_inclusion'), id(st.exc_path): e.int('n_lines_exclusion'), id(st.default_path): e.int('n_lines_default')}
        for v in st.nlines.values():
            e.assume(v >= 0)
        st.nonempty_flags = {}
        st.nonempty = lambda name: st.nonempty_flags.setdefault(name, e.bool(f'{name}_nonempty'))
        st.args = [SymObj('Namespace', inclusion_biotypes=st.inc_path if st.has_inc else None, exclusion_biotypes=st.exc_path if st.has_exc else None)]
        self._cur = st
        return st

    @property
    def models(self):
        c = self

        def inst(reg):
            zz = lambda i: i if is_z3(i) else z3.IntVal(i)

            def open_(I, a, k):
                st = c._cur
                st.opened.append(a[0])
                p = a[0]
                n = st.nlines.get(id(p))
                if n is None:
                    raise Unsupported(f'open({p!r})')
                v = FnView(n, lambda i: SymObj('Line8', path=p, i=zz(i)), tag='lines')
                v.path = p
                return v
            reg.ext_('open', open_)
            reg.method_('Line8', 'rstrip', lambda I, o, a, k: SymObj('StrippedLine8', path=o.fields['path'], i=o.fields['i']))
            reg.ext_('pkg_resources.resource_filename', lambda I, a, k: c._cur.default_path)
            reg.protocol_('StrippedLine8', '__bool__', lambda I, o: I.e.bool('line_not_blank'))
        return (inst,)

    def lists(self, env):
        out = {}
        for nm in ('inclusion_biotypes', 'exclusion_biotypes', 'biotypes'):
            if env.has(nm):
                out[nm] = env[nm]
        return out

    def havoc_for(self, nm):
        def havoc(I, env, k):
            # the list filled by this loop, from the file that is being iterated
            if env.has(nm) and isinstance(env[nm], list) and not env[nm]:
                g = _BiotypeList(self, nm)
                g.src = getattr(env['handle'], 'path', None) if env.has('handle') else None
                env[nm] = g
        return havoc

    def head(self, I, env, k):
        self._cur.mark = len(self._cur.appends)

    def step(self, I, env, k):
        st = self._cur
        new = st.appends[st.mark:]
        line = env['line']
        return [('every-line-of-the-file-goes-into-the-list-once', len(new) == 1 and (new[0][1] is line or (isinstance(line, SymObj) and z3.is_true(z3.simplify(new[0][1].fields['i'] == k)))))]

    @property
    def loops(self):
        T = lambda I, env, k: []
        spec = lambda nm: LoopSpec(inv=T, havoc=self.havoc_for(nm), on_head=self.head, step=self.step, target_after='unknown',
                                   on_break=lambda I, env, k: [('every-line-is-read', False)])
        return {0: spec('inclusion_biotypes'), 1: spec('exclusion_biotypes')}

    def post_return(self, I, st, ret):
        e = I.e
        ok = isinstance(ret, tuple) and len(ret) == 2
        e.prove('C08/biotypes/returns-the-two-lists', ok)
        if not ok:
            return
        inc, exc = ret

        def source(v):
            if isinstance(v, _BiotypeList):
                return None if v.mixed else v.src
            return 'empty' if isinstance(v, list) and not v else 'other'
        # a list that is still the empty Python list was never filled: either no file was opened for it or the file had no line
        si, se = source(inc), source(exc)
        e.prove('C08/biotypes/inclusion-list-from-the-inclusion-file-only', (si is st.inc_path or si == 'empty') if st.has_inc else si == 'empty')
        e.prove('C08/biotypes/exclusion-list-from-the-given-file-else-from-the-packaged-default',
                (se is st.exc_path or se == 'empty') if st.has_exc else (se is st.default_path or se == 'empty'))
        want_open = ([st.inc_path] if st.has_inc else []) + [st.exc_path if st.has_exc else st.default_path]
        e.prove('C08/biotypes/only-the-files-that-are-needed-are-opened', len(st.opened) == len(want_open) and all(a is b for a, b in zip(st.opened, want_open)))


from pyvc.native import NativeCheck


class NativeBiotypes(NativeCheck):
    name = 'biotype_lists'
    props = ('C08',)
    functions = (f'{CMN}:load_inclusion_exclusion_biotypes',)
    bounded_for = 'the two biotype lists through the real function and real files (the symbolic contract cannot follow a helper function added later)'
    bound = 'inclusion file absent / empty / two lines x exclusion file absent / empty / two lines, with and without a line break after the last entry (17 cases)'
    quick_budget_s = 20
    thorough_budget_s = 20

    def cases(self, rng, tier):
        for inc in (None, [], ['lncRNA', 'miRNA']):
            for exc in (None, [], ['snoRNA', 'TEC']):
                for nl in (True, False):
                    if not nl and not (inc or exc):
                        continue
                    yield dict(inclusion=inc, exclusion=exc, trailing_newline=nl)

    def check(self, inp):
        import argparse, tempfile, os, shutil
        from moPepGen.cli import common
        import pkg_resources
        d = tempfile.mkdtemp(prefix='verif_c08_')
        try:
            paths = {}
            for nm in ('inclusion', 'exclusion'):
                if inp[nm] is not None:
                    paths[nm] = os.path.join(d, nm + '.txt')
                    with open(paths[nm], 'w') as fh:
                        fh.write(''.join(x + '\n' for x in inp[nm]) if inp.get('trailing_newline', True) else '\n'.join(inp[nm]))
            args = argparse.Namespace(inclusion_biotypes=paths.get('inclusion'), exclusion_biotypes=paths.get('exclusion'))
            got_inc, got_exc = common.load_inclusion_exclusion_biotypes(args)
            default = [l.rstrip() for l in open(pkg_resources.resource_filename('moPepGen', 'data/gencode_hs_exclusion_list.txt'))]
            want_inc = inp['inclusion'] or []
            want_exc = inp['exclusion'] if inp['exclusion'] is not None else default
            if list(got_inc) != want_inc or list(got_exc) != want_exc:
                return dict(call=f'load_inclusion_exclusion_biotypes({inp})', observed=dict(inclusion=list(got_inc)[:5], exclusion=list(got_exc)[:5]),
                            expected=dict(inclusion=want_inc[:5], exclusion=want_exc[:5]), signature='biotype-list-differs-from-the-given-files')
        finally:
            shutil.rmtree(d, ignore_errors=True)
        return None

    def nontrivial(self, inp):
        return str(inp)


NATIVE = [NativeBiotypes()]
