"""C19 — filterFasta keeps exactly the entries satisfying its criteria (VariantPeptidePool.filter)."""
from __future__ import annotations
import types
import z3
from pyvc.contract import Contract, Lemma, register
from pyvc.core import Unsupported, as_bool
from pyvc.interp import LoopSpec, PyRaise
from pyvc.symlist import SymList
from pyvc.values import *
from .c08 import OpaqueSet

VPP = 'moPepGen/aa/VariantPeptidePool.py'
I_, B_ = z3.IntSort(), z3.BoolSort()


class ExprMap:
    def __init__(self, fn):
        self.fn = fn

    def sym_getitem(self, I, key):
        return self.fn(key)


def mk_world(e):
    """uninterpreted description of a peptide pool: peptide k has ne(k) entries; entry (k,j) has
    nt(k,j) >= 1 transcripts txid(k,j,t) and three exemption flags"""
    w = types.SimpleNamespace()
    w.N = z3.Int('N')
    w.ne = z3.Function('ne', I_, I_)
    w.nt = z3.Function('nt', I_, I_, I_)
    w.txid = z3.Function('txid', I_, I_, I_, I_)
    w.fusion = z3.Function('is_fusion', I_, I_, B_)
    w.circ = z3.Function('is_circ', I_, I_, B_)
    w.splice = z3.Function('is_splice', I_, I_, B_)
    w.nsites = z3.Function('nsites', I_, I_)
    w.coding = z3.Function('coding', I_, B_)
    w.expr = z3.Function('expr', I_, I_)
    w.denied = z3.Function('denied', I_, B_)
    a, b = z3.Ints('wa wb')
    w.axioms = [w.N >= 0, z3.ForAll([a], w.ne(a) >= 0), z3.ForAll([a, b], w.nt(a, b) >= 1),
                z3.ForAll([a], w.nsites(a) >= 0)]
    return w


def spec_entry(w, o, k, j):
    """keep decision for entry j of peptide k, transcribed from the property statement"""
    t = z3.Int('st')
    rng = z3.And(0 <= t, t < w.nt(k, j))
    all_noncoding = z3.Not(z3.Exists([t], z3.And(rng, w.coding(w.txid(k, j, t)))))
    all_coding = z3.ForAll([t], z3.Implies(rng, w.coding(w.txid(k, j, t))))
    canonical = z3.And(z3.Not(w.circ(k, j)), w.coding(w.txid(k, j, 0)))
    denylisted = z3.And(o.deny_given, w.denied(k))
    expressed = z3.ForAll([t], z3.Implies(rng, w.expr(w.txid(k, j, t)) >= o.cutoff))
    return z3.And(z3.Not(z3.And(denylisted, z3.Not(z3.And(o.keep_canonical, canonical)))),
                  z3.Or(z3.And(o.keep_all_noncoding, all_noncoding), z3.And(o.keep_all_coding, all_coding),
                        z3.Not(o.exprs_given), w.fusion(k, j), w.circ(k, j), w.splice(k, j), expressed))


def spec_misc(w, o, k):
    return z3.And(z3.Or(z3.Not(o.lo_given), w.nsites(k) >= o.lo), z3.Or(z3.Not(o.hi_given), w.nsites(k) <= o.hi))


def mk_opts(e, suffix=''):
    o = types.SimpleNamespace()
    for b in ('deny_given', 'keep_canonical', 'keep_all_noncoding', 'keep_all_coding', 'exprs_given', 'lo_given', 'hi_given'):
        setattr(o, b, z3.Bool(b + suffix))
    o.cutoff, o.lo, o.hi = z3.Int('cutoff' + suffix), z3.Int('misc_lo' + suffix), z3.Int('misc_hi' + suffix)
    return o


@register
class Filter(Contract):
    path, qualname, props = VPP, 'VariantPeptidePool.filter', ('C19',)
    assumptions = ('VariantPeptideInfo.from_variant_peptide_minimal(peptide) is used through its result (one entry per header entry: contract in c19c; the questions asked of an entry: contracts in c19b; the header parser: contract and bounded round trip in C18)',
                   'assumed: peptide.find_all_enzymatic_cleave_sites(enzyme, exception) is the site list of C10')

    def setup(self, I):
        e = I.e
        st = types.SimpleNamespace()
        w = mk_world(e)
        o = mk_opts(e)
        st.w, st.o = w, o
        for a in w.axioms:
            e.assume(a)
        a_ = z3.Int('ak')
        st.anykept = z3.Function('anykept', I_, I_, B_)
        st.added = []
        st.peps = {}
        def pep_at(k):
            kz = k if is_z3(k) else z3.IntVal(k)
            key = z3.simplify(kz).sexpr()
            if key not in st.peps:
                st.peps[key] = SymObj('AminoAcidSeqRecord', seq=SymObj('Seq', k=kz), description=OpaqueStr(['hdr', kz]),
                                      id=None, name=None, k=kz)
            return st.peps[key]
        st.pool = SymObj('VariantPeptidePool', peptides=FnView(w.N, pep_at, tag='peptides'), peptide_delimeter=' ')
        # options as Python values: None or present
        st.enzyme_is_trypsin = e.bool('enzyme_is_trypsin')
        enzyme = 'trypsin' if e.branch(st.enzyme_is_trypsin, 'enzyme') else 'lysc'
        lo = o.lo if e.branch(o.lo_given, 'lo given') else None
        hi = o.hi if e.branch(o.hi_given, 'hi given') else None
        exprs = ExprMap(lambda key: w.expr(key)) if e.branch(o.exprs_given, 'exprs given') else None
        deny = OpaqueSet(True, lambda item: w.denied(item.fields['k'])) if e.branch(o.deny_given, 'denylist given') else None
        coding = OpaqueSet(True, lambda item: w.coding(item))
        st.enzyme = enzyme
        st.args = [st.pool]
        st.kwargs = dict(exprs=exprs, cutoff=o.cutoff, coding_transcripts=coding, keep_all_noncoding=o.keep_all_noncoding,
                         keep_all_coding=o.keep_all_coding, enzyme=enzyme, miscleavage_range=(lo, hi), denylist=deny,
                         keep_canonical=o.keep_canonical)
        self._cur = st
        return st

    @property
    def models(self):
        return (self.install_models,)

    def install_models(self, reg):
        c = self

        def sites(I, o, a, k):
            st = c._cur
            enzyme, exc = a[0], a[1] if len(a) > 1 else k.get('exception')
            I.e.prove('C19/misc/site-count-uses-the-given-enzyme', enzyme == st.enzyme)
            I.e.prove('C19/misc/trypsin-exception-iff-trypsin', exc == ('trypsin_exception' if st.enzyme == 'trypsin' else None))
            return FnView(st.w.nsites(o.fields['k']), lambda i: I.e.int('site'), tag='sites')
        reg.method_('AminoAcidSeqRecord', 'find_all_enzymatic_cleave_sites', sites)

        def entries(I, cls, a, k):
            st = c._cur
            pk = a[0].fields['k']
            cache = {}
            def entry_at(j):
                jz = j if is_z3(j) else z3.IntVal(j)
                key = z3.simplify(jz).sexpr()
                if key not in cache:
                    cache[key] = SymObj('EntryStub', k=pk, j=jz)
                return cache[key]
            return FnView(st.w.ne(pk), entry_at, tag='entries')
        reg.method_('VariantPeptideInfo', 'from_variant_peptide_minimal', entries)
        reg.func_('moPepGen/aa/VariantPeptideLabel.py', 'VariantPeptideInfo.from_variant_peptide_minimal', lambda I, a, k: entries(I, None, a, k))
        W = lambda: c._cur.w
        reg.method_('EntryStub', 'get_transcript_ids',
                    lambda I, o, a, k: FnView(W().nt(o.fields['k'], o.fields['j']),
                                              lambda t: W().txid(o.fields['k'], o.fields['j'], t if is_z3(t) else z3.IntVal(t)), tag='txids'))
        reg.method_('EntryStub', 'is_fusion', lambda I, o, a, k: W().fusion(o.fields['k'], o.fields['j']))
        reg.method_('EntryStub', 'is_circ_rna', lambda I, o, a, k: W().circ(o.fields['k'], o.fields['j']))
        reg.method_('EntryStub', 'is_splice_altering', lambda I, o, a, k: W().splice(o.fields['k'], o.fields['j']))

        class GhostSet:
            def sym_method(s, I, name, a, k):
                if name == 'add':
                    c._cur.added.append(a[0])
                    return None
                raise Unsupported(name)

        def mk_pool(I, a, k):
            return SymObj('VariantPeptidePoolOut', peptides=GhostSet())
        reg.ctor_('VariantPeptidePool', mk_pool)

    # ---- loops: 0 = peptides, 1 = entries of one peptide
    def outer_on_head(self, I, env, k):
        st = self._cur
        st.added0 = len(st.added)
        st.cur_k = k
        st.cur_pep = st.pool.fields['peptides'].get(k)
        st.seq0 = st.cur_pep.fields['seq']

    def outer_step(self, I, env, k):
        st = self._cur
        new = st.added[st.added0:]
        kept_any = st.anykept(k, st.w.ne(k))
        want = z3.And(spec_misc(st.w, st.o, k), kept_any)
        out = [('sequence-unchanged', st.cur_pep.fields['seq'] is st.seq0)]
        if new:
            out += [('peptide-kept-only-if-some-entry-kept-and-miscleavage-in-range', want),
                    ('kept-peptide-is-this-input-peptide', len(new) == 1 and new[0] is st.cur_pep)]
        else:
            out += [('peptide-dropped-only-if-no-entry-kept-or-miscleavage-out-of-range', z3.Not(want))]
        return out

    def inner_inv(self, I, env, j):
        st = self._cur
        keep = env['keep']
        L = keep.length if isinstance(keep, SymList) else z3.IntVal(len(keep))
        return [('keep-nonempty-iff-some-entry-so-far-satisfies-the-rule', (L > 0) == st.anykept(st.cur_k, j))]

    def inner_havoc(self, I, env, j):
        env['keep'] = SymList(I, 'keep', wrap=lambda t: SymObj('EntryStub', k=self._cur.cur_k, j=t),
                              unwrap=lambda v: v.fields['j'])

    def inner_on_init(self, I, env):
        st = self._cur
        k = st.cur_k
        j = z3.Int('aj')
        I.e.assume(z3.Not(st.anykept(k, 0)))
        I.e.assume(z3.ForAll([j], z3.Implies(j >= 0, st.anykept(k, j + 1) == z3.Or(st.anykept(k, j), spec_entry(st.w, st.o, k, j))),
                             patterns=[st.anykept(k, j + 1)]))

    def inner_on_head(self, I, env, j):
        st = self._cur
        keep = env['keep']
        st.keep_len0 = keep.length

    def inner_step(self, I, env, j):
        st = self._cur
        keep = env['keep']
        grew = keep.length - st.keep_len0
        sp = spec_entry(st.w, st.o, st.cur_k, j)
        return [('entry-kept-iff-it-satisfies-the-rule', z3.If(sp, grew == 1, grew == 0)),
                ('kept-entry-is-this-entry', z3.Implies(grew == 1, keep.arr[st.keep_len0] == j))]

    @property
    def loops(self):
        return {0: LoopSpec(inv=lambda I, env, k: [], on_head=self.outer_on_head, step=self.outer_step),
                1: LoopSpec(inv=self.inner_inv, havoc=self.inner_havoc, on_init=self.inner_on_init,
                            on_head=self.inner_on_head, step=self.inner_step)}

    def post_return(self, I, st, ret):
        I.e.prove('C19/return/a-new-pool', isinstance(ret, SymObj) and ret.cls == 'VariantPeptidePoolOut')


@register
class FilterLemmas(Lemma):
    """Over the contract of filter: a stricter cutoff or a narrower miscleavage range never keeps
    more; the decision is a function of the entry (so re-filtering the kept entries changes nothing)."""
    qualname, props = 'filter_monotone', ('C19',)

    def obligations(self, e):
        w = mk_world(e)
        o1, o2 = mk_opts(e, '_1'), mk_opts(e, '_2')
        k, j = z3.Ints('lk lj')
        same = [getattr(o1, b) == getattr(o2, b) for b in ('deny_given', 'keep_canonical', 'keep_all_noncoding', 'keep_all_coding', 'exprs_given')]
        hy = w.axioms + same
        return [('stricter-cutoff-keeps-no-more', hy + [o1.cutoff <= o2.cutoff, spec_entry(w, o2, k, j)], spec_entry(w, o1, k, j)),
                ('narrower-miscleavage-range-keeps-no-more',
                 w.axioms + [z3.Implies(o1.lo_given, z3.And(o2.lo_given, o1.lo <= o2.lo)), z3.Implies(o1.hi_given, z3.And(o2.hi_given, o2.hi <= o1.hi)),
                             spec_misc(w, o2, k)], spec_misc(w, o1, k))]


# ----------------------------------------------------------------------------
# Native side: replay + CPython cross-check of the decision spec on real headers
# ----------------------------------------------------------------------------
# ----------------------------------------------------------------------------
# filterFasta command: the options reach VariantPeptidePool.filter under the right parameter names
# ----------------------------------------------------------------------------
FFC = 'moPepGen/cli/filter_fasta.py'


class MiscStr:
    """--miscleavages value '<a>:<b>'"""
    def __init__(self, a, b):
        self.a, self.b = a, b

    def sym_contains(self, I, item):
        if item == ':':
            return True
        raise Unsupported('substring test')

    def sym_method(self, I, name, args, kwargs):
        from .c14 import IntStr
        if name == 'split' and args[:1] == [':']:
            return [IntStr(self.a), IntStr(self.b)]
        raise Unsupported(f'miscleavages.{name}')


class ColOpt:
    """--tx-id-col / --quant-col: a 1-based column number or a column name of the header line"""
    def __init__(self, e, name):
        self.name = name
        self.decimal = e.bool(f'{name}_is_a_number')
        self.value = e.int(f'{name}_number')

    def sym_method(self, I, name, a, k):
        if name == 'isdecimal':
            return self.decimal
        raise Unsupported(f'column option .{name}')

    def sym_int(self, I):
        return self.value


@register
class FilterFastaCLI(Contract):
    path, qualname, props = FFC, 'filter_fasta', ('C19',)
    assumptions = ('assumed: load_coding_transcripts, VariantPeptidePool.load, load_expression_table, SeqIO.parse, open are external '
                   '(their results are opaque values whose identity is followed to the filter call); the expression table is read through a handle whose readline calls are counted',)

    def setup(self, I):
        e = I.e
        st = types.SimpleNamespace(calls=[], writes=[])
        st.has_exprs, st.has_deny, st.has_misc = e.bool('exprs_table_given'), e.bool('denylist_given'), e.bool('miscleavages_given')
        st.a, st.b = e.int('misc_lo'), e.int('misc_hi')
        st.flags = dict(keep_all_coding=e.bool('keep_all_coding'), keep_all_noncoding=e.bool('keep_all_noncoding'),
                        keep_canonical=e.bool('keep_canonical'))
        st.cutoff = e.real('quant_cutoff')
        st.enzyme = SymStr(z3.Const('enzyme', e.StrSort))
        st.skip = e.int('skip_lines')
        e.assume(st.skip >= 0)
        st.delim = SymObj('Delimiter19')
        st.reads = 0                      # number of handle.readline() calls on the expression table
        st.txcol, st.qcol = ColOpt(e, 'tx_id_col'), ColOpt(e, 'quant_col')
        st.table_call = None
        ns = SymObj('Namespace', input_path=OpaqueStr(['in']), output_path=OpaqueStr(['out']),
                    miscleavages=MiscStr(st.a, st.b) if e.branch(st.has_misc, '--miscleavages given') else None,
                    exprs_table=OpaqueStr(['exprs']) if e.branch(st.has_exprs, '--exprs-table given') else None,
                    denylist=OpaqueStr(['deny']) if e.branch(st.has_deny, '--denylist given') else None,
                    skip_lines=st.skip, tx_id_col=st.txcol, quant_col=st.qcol, delimiter=st.delim, quant_cutoff=st.cutoff, enzyme=st.enzyme,
                    index_dir=None, annotation_gtf=None, **st.flags)
        st.coding, st.exprs, st.pool = SymObj('CodingTx'), SymObj('Exprs'), SymObj('PoolStub19')
        st.deny_items = [SymObj('FastaRec', seq=SymObj('SeqA')), SymObj('FastaRec', seq=SymObj('SeqB'))]
        st.args = [ns]
        self._cur = st
        return st

    @property
    def models(self):
        return (self.install_models,)

    def install_models(self, reg):
        c = self
        noop = lambda I, a, k: None
        reg.func_('moPepGen/cli/common.py', 'validate_file_format', noop)
        reg.func_('moPepGen/cli/common.py', 'print_start_message', noop)
        reg.func_(FFC, 'load_coding_transcripts', lambda I, a, k: c._cur.coding)
        def load_table(I, a, k):
            st = c._cur
            st.table_call = dict(k, _pos=list(a), _reads=st.reads)
            return st.exprs
        reg.func_(FFC, 'load_expression_table', load_table)
        reg.ext_('open', lambda I, a, k: SymObj('File', path=a[0]))
        def readline(I, o, a, k):
            st = c._cur
            st.reads = st.reads + 1
            return SymObj('TableLine19', k=st.reads - 1)
        reg.method_('File', 'readline', readline)
        reg.method_('TableLine19', 'rstrip', lambda I, o, a, k: o)

        def split_header(I, o, a, k):
            I.e.prove('C19/cli/header-split-by-the-given-delimiter', len(a) == 1 and a[0] is c._cur.delim)
            return SymObj('Header19', k=o.fields['k'])
        reg.method_('TableLine19', 'split', split_header)
        reg.method_('Header19', 'index', lambda I, o, a, k: SymObj('HeaderIndex19', of=a[0], line=o.fields['k']))
        reg.method_('VariantPeptidePool', 'load', lambda I, o, a, k: c._cur.pool)
        reg.ext_('SeqIO.parse', lambda I, a, k: list(c._cur.deny_items))
        reg.ext_('Bio.SeqIO.parse', lambda I, a, k: list(c._cur.deny_items))

        def do_filter(I, o, a, k):
            st = c._cur
            # Python's own argument binding on the real signature of VariantPeptidePool.filter
            cls, fnode = I.repo.find_method('VariantPeptidePool', 'filter')
            from pyvc.interp import Env
            env = Env({})
            I.bind_args(fnode.args, [o] + list(a), dict(k), env, 'filter')
            st.calls.append(dict(env.vars))
            return SymObj('FilteredPool')
        reg.method_('PoolStub19', 'filter', do_filter)
        reg.method_('FilteredPool', 'write', lambda I, o, a, k: c._cur.writes.append(a))
        # the filtered pool may be empty: the result is written all the same (the output file then holds exactly what passed - nothing)
        reg.attr_('FilteredPool', 'peptides', lambda I, o: types.SimpleNamespace(sym_truth=lambda I2: I2.e.bool('some_peptide_passes_the_filters'),
                                                                                 sym_len=lambda I2: I2.e.int('n_peptides_passing')))

    def skip_havoc(self, I, env, k):
        st = self._cur
        st.reads = I.e.int('lines_read_so_far')

    def skip_inv(self, I, env, k):
        st = self._cur
        i = env['i']
        return [('one-line-read-per-skipped-line', z3.And(st.reads == i, i == k, 0 <= i, i <= st.skip))]

    @property
    def loops(self):
        return {0: LoopSpec(inv=self.skip_inv, havoc=self.skip_havoc)}

    def post_return(self, I, st, ret):
        e = I.e
        tc = st.table_call
        if tc is not None:
            by_name = z3.Or(z3.Not(st.txcol.decimal), z3.Not(st.qcol.decimal))
            e.prove('C19/cli/table-read-after-skipping-the-given-lines-and-the-header-line-iff-a-column-is-named',
                    z3.And(not tc['_pos'], tc.get('handle') is not None, tc['_reads'] == st.skip + z3.If(by_name, 1, 0), tc.get('delim') is st.delim))

            def col_ok(got, opt):
                if is_z3(got):
                    return z3.And(opt.decimal, got == opt.value - 1)
                if isinstance(got, SymObj) and got.cls == 'HeaderIndex19':
                    return z3.And(z3.Not(opt.decimal), got.fields['of'] is opt, got.fields['line'] == st.skip)
                return False
            e.prove('C19/cli/transcript-column=number-minus-one-or-its-position-in-the-header', col_ok(tc.get('tx_col'), st.txcol))
            e.prove('C19/cli/quantity-column=number-minus-one-or-its-position-in-the-header', col_ok(tc.get('quant_col'), st.qcol))
        e.prove('C19/cli/filter-called-once-and-its-result-written', len(st.calls) == 1 and len(st.writes) == 1)
        if len(st.calls) != 1:
            return
        b = st.calls[0]
        for name, val in st.flags.items():
            e.prove(f'C19/cli/--{name.replace("_", "-")}-reaches-parameter-{name}', b.get(name) is val)
        e.prove('C19/cli/cutoff', b.get('cutoff') is st.cutoff)
        e.prove('C19/cli/enzyme', b.get('enzyme') is st.enzyme)
        e.prove('C19/cli/coding-transcripts', b.get('coding_transcripts') is st.coding)
        ex = b.get('exprs')
        e.prove('C19/cli/expression-table-iff-given', z3.If(st.has_exprs, ex is st.exprs, ex is None))
        dl = b.get('denylist')
        want = {x.fields['seq'] for x in st.deny_items}
        try:
            got = set(dl) if dl is not None else None
        except TypeError:
            got = 'not-a-collection'
        e.prove('C19/cli/denylist-iff-given', z3.If(st.has_deny, got == want, dl is None))
        mr = b.get('miscleavage_range')
        okm = isinstance(mr, tuple) and len(mr) == 2
        e.prove('C19/cli/miscleavage-range', z3.If(st.has_misc, z3.And(mr[0] == st.a, mr[1] == st.b) if okm and mr[0] is not None else False,
                                                   okm and mr[0] is None and mr[1] is None) if okm else False)


from pyvc.native import NativeCheck


class NativeFilter(NativeCheck):
    name = 'filter_decision'
    props = ('C19',)
    functions = (f'{VPP}:VariantPeptidePool.filter',)
    bounded_for = 'idempotence of filtering on real headers (needs the header parser/printer round trip, not proved)'
    bound = ('pool = callVariant output on the demo inputs (real multi-entry headers incl. fusion/circRNA/splicing); random expression tables, cutoffs, '
             'flag combinations, denylists, miscleavage ranges, enzymes trypsin/lysc; quick 60 configurations, thorough 600')
    quick_budget_s = 60
    thorough_budget_s = 300
    _pool = None

    def pool(self):
        if NativeFilter._pool is None:
            from . import cv_run
            f, _ = cv_run.run_call_variant(threads=1)
            anno, genome, proteome = cv_run.demo_reference()
            coding = [t for t in anno.transcripts if anno.transcripts[t].is_protein_coding]
            NativeFilter._pool = (f, coding, list(anno.transcripts.keys()))
        return NativeFilter._pool

    def cases(self, rng, tier):
        f, coding, txs = self.pool()
        seqs = sorted(f.values())
        for _ in range(600 if tier == 'thorough' else 60):
            yield dict(seed=rng.randrange(10 ** 9), cutoff=rng.choice([0, 1, 3, 5, 8]),
                       exprs=rng.random() < 0.8, keep_all_noncoding=rng.random() < 0.3, keep_all_coding=rng.random() < 0.3,
                       keep_canonical=rng.random() < 0.5, deny=rng.random() < 0.5,
                       enzyme=rng.choice(['trypsin', 'trypsin', 'lysc']),
                       lo=rng.choice([None, 0, 1]), hi=rng.choice([None, 0, 1, 2]))

    @staticmethod
    def splice_altering(label):
        """definitional: a plain variant entry one of whose variant ids has an alternative splicing type as a token"""
        import re
        fields = label.split('|')
        if fields[0].startswith(('FUSION-', 'CIRC-', 'CI-')):
            return False
        return any(t in ('SE', 'A5SS', 'A3SS', 'RI', 'MXE') for fld in fields[1:] for t in re.split('[-_]', fld))

    def _mkpool(self):
        from moPepGen.aa import VariantPeptidePool, AminoAcidSeqRecord
        from Bio.Seq import Seq
        f, coding, txs = self.pool()
        pool = VariantPeptidePool()
        for h, s in f.items():
            pool.peptides.add(AminoAcidSeqRecord(Seq(s), _id=h, name=h, description=h))
        # entries whose variant ids merely contain the letters of a splicing type (alt-translation labels) and real splicing ids
        for n, (lab, s) in enumerate([('SECT-12', 'MKPEPTIDESECR'), ('W2F-3', 'AAAFPEPTIDEK'), ('SE_10-20-30-40', 'SKIPPEDEXNK'), ('RI_5-50', 'RETAINEDINTRNK'),
                                      ('SECT-7|W2F-9', 'MKSECWFPEPR')]):
            h = f'{txs[n % len(txs)]}|{lab}|1'
            pool.peptides.add(AminoAcidSeqRecord(Seq(s), _id=h, name=h, description=h))
        return pool

    def check(self, inp):
        import random
        from moPepGen.aa.VariantPeptideLabel import VariantPeptideInfo
        from . import pyspec
        f, coding, txs = self.pool()
        r = random.Random(inp['seed'])
        exprs = {t: r.randint(0, 10) for t in txs} if inp['exprs'] else None
        deny = {s for s in f.values() if r.random() < 0.3} if inp['deny'] else None
        from Bio.Seq import Seq
        denyseq = {Seq(s) for s in deny} if deny is not None else None
        pool = self._mkpool()
        kw = dict(exprs=exprs, cutoff=inp['cutoff'], coding_transcripts=coding, keep_all_noncoding=inp['keep_all_noncoding'],
                  keep_all_coding=inp['keep_all_coding'], enzyme=inp['enzyme'], miscleavage_range=(inp['lo'], inp['hi']),
                  denylist=denyseq, keep_canonical=inp['keep_canonical'])
        expected = {}
        for pep in pool.peptides:
            seq = str(pep.seq)
            exc = 'trypsin_exception' if inp['enzyme'] == 'trypsin' else None
            n = len(pyspec.cleave_sites(seq, inp['enzyme'], exc))
            if (inp['lo'] is not None and n < inp['lo']) or (inp['hi'] is not None and n > inp['hi']):
                continue
            kept = []
            for entry in VariantPeptideInfo.from_variant_peptide_minimal(pep):
                tids = entry.get_transcript_ids()
                all_nc = not any(t in coding for t in tids)
                all_c = all(t in coding for t in tids)
                canonical = (not entry.is_circ_rna()) and tids[0] in coding
                denied = deny is not None and seq in deny
                ok = not (denied and not (inp['keep_canonical'] and canonical)) and (
                    (inp['keep_all_noncoding'] and all_nc) or (inp['keep_all_coding'] and all_c) or exprs is None
                    or entry.is_fusion() or entry.is_circ_rna() or self.splice_altering(str(entry))
                    or all(exprs[t] >= inp['cutoff'] for t in tids))
                if ok:
                    kept.append(str(entry))
            if kept:
                expected[seq] = kept
        out = pool.filter(**kw)
        got = {str(p.seq): p.description.split(' ') for p in out.peptides}
        if got != expected:
            bad = [s for s in set(got) | set(expected) if got.get(s) != expected.get(s)][:3]
            return dict(observed={s: got.get(s) for s in bad}, expected={s: expected.get(s) for s in bad})
        # idempotent
        again = out.filter(**kw)
        got2 = {str(p.seq): p.description.split(' ') for p in again.peptides}
        if got2 != got:
            bad = [s for s in set(got) | set(got2) if got.get(s) != got2.get(s)][:3]
            return dict(observed={s: got2.get(s) for s in bad}, expected='filtering the filtered pool again changes nothing')
        return None


class NativeFilterCLI(NativeCheck):
    name = 'filter_cli_flags'
    props = ('C19',)
    functions = (f'{FFC}:filter_fasta',)
    bounded_for = ''
    bound = ('CPython cross-check of the proved option wiring of filterFasta: two peptides (one coding, one non-coding transcript, both '
             'below the cutoff), every combination of --keep-all-coding / --keep-all-noncoding, through the real command function')
    quick_budget_s = 10
    thorough_budget_s = 20

    def cases(self, rng, tier):
        for kc in (False, True):
            for kn in (False, True):
                yield dict(keep_all_coding=kc, keep_all_noncoding=kn)

    def from_model(self, model):
        return dict(keep_all_coding=True, keep_all_noncoding=False)

    def check(self, inp):
        import tempfile, shutil, pickle, argparse
        from pathlib import Path
        from moPepGen.cli.filter_fasta import filter_fasta
        d = Path(tempfile.mkdtemp(prefix='verif_c19_'))
        try:
            with open(d / 'coding_transcripts.pkl', 'wb') as fh:
                pickle.dump({'ENST_C'}, fh)
            (d / 'in.fasta').write_text('>ENST_C|SNV-10-A-T|1\nAAAAAAAAAK\n>ENST_N|SNV-20-A-T|1\nCCCCCCCCCK\n')
            (d / 'exprs.tsv').write_text('ENST_C\t1\nENST_N\t1\n')
            args = argparse.Namespace(command='filterFasta', input_path=d / 'in.fasta', output_path=d / 'out.fasta', exprs_table=d / 'exprs.tsv',
                                      skip_lines=0, delimiter='\t', tx_id_col='1', quant_col='2', quant_cutoff=5.0,
                                      keep_all_coding=inp['keep_all_coding'], keep_all_noncoding=inp['keep_all_noncoding'],
                                      enzyme='trypsin', miscleavages=None, denylist=None, keep_canonical=False,
                                      index_dir=d, annotation_gtf=None, reference_source=None, quiet=True, debug_level=1)
            filter_fasta(args)
            out = (d / 'out.fasta').read_text() if (d / 'out.fasta').exists() else ''
            got = {l for l in out.splitlines() if l and not l.startswith('>')}
            exp = ({'AAAAAAAAAK'} if inp['keep_all_coding'] else set()) | ({'CCCCCCCCCK'} if inp['keep_all_noncoding'] else set())
            if got != exp:
                return dict(call=f'filterFasta --keep-all-coding={inp["keep_all_coding"]} --keep-all-noncoding={inp["keep_all_noncoding"]}',
                            observed=sorted(got), expected=sorted(exp), signature='flags-transposed')
        finally:
            shutil.rmtree(d, ignore_errors=True)
        return None


class NativeFilterFiles(NativeCheck):
    name = 'filter_cli_files'
    props = ('C19',)
    functions = (f'{FFC}:filter_fasta',)
    bounded_for = ('what the command reads and writes around the filter: a denylist FASTA whose sequences are wrapped over several lines or carry titles '
                   'only, peptides of coding transcripts kept by --keep-canonical, and an output file that holds exactly what passed - also when nothing does '
                   '(a stale file of an earlier run must not survive)')
    bound = '3 hand-made inputs through the real command function'
    quick_budget_s = 20
    thorough_budget_s = 20

    def cases(self, rng, tier):
        for nm in ('wrapped-denylist', 'canonical-kept', 'nothing-passes'):
            yield dict(case=nm)

    def check(self, inp):
        import tempfile, shutil, pickle, argparse
        from pathlib import Path
        from moPepGen.cli.filter_fasta import filter_fasta
        d = Path(tempfile.mkdtemp(prefix='verif_c19f_'))
        long_pep = 'ACDEFGHIKLMNPQRSTVWY' * 4 + 'K'            # 81 residues: FASTA writers wrap at 60 columns
        try:
            with open(d / 'coding_transcripts.pkl', 'wb') as fh:
                pickle.dump({'ENST_C'}, fh)
            base = dict(command='filterFasta', input_path=d / 'in.fasta', output_path=d / 'out.fasta', exprs_table=None, skip_lines=0, delimiter='\t',
                        tx_id_col='1', quant_col='2', quant_cutoff=None, keep_all_coding=False, keep_all_noncoding=False, enzyme='trypsin', miscleavages=None,
                        denylist=None, keep_canonical=False, index_dir=d, annotation_gtf=None, reference_source=None, quiet=True, debug_level=1)
            if inp['case'] == 'wrapped-denylist':
                (d / 'in.fasta').write_text(f'>ENST_N|SNV-10-A-T|1\n{long_pep}\n>ENST_N|SNV-20-A-T|1\nCCCCCCCCCK\n')
                (d / 'deny.fasta').write_text(f'>some protein\n{long_pep[:60]}\n{long_pep[60:]}\n')
                base.update(denylist=d / 'deny.fasta')
                exp = {'CCCCCCCCCK'}
            elif inp['case'] == 'canonical-kept':
                (d / 'in.fasta').write_text('>ENST_C|SNV-10-A-T|1\nAAAAAAAAAK\n>ENST_N|SNV-20-A-T|1\nCCCCCCCCCK\n')
                (d / 'deny.fasta').write_text('>x\nAAAAAAAAAK\n>y\nCCCCCCCCCK\n')
                base.update(denylist=d / 'deny.fasta', keep_canonical=True)
                exp = {'AAAAAAAAAK'}
            else:
                (d / 'in.fasta').write_text('>ENST_N|SNV-20-A-T|1\nCCCCCCCCCK\n')
                (d / 'deny.fasta').write_text('>y\nCCCCCCCCCK\n')
                (d / 'out.fasta').write_text('>ENST_N|SNV-20-A-T|1\nCCCCCCCCCK\n')       # left over from a looser run
                base.update(denylist=d / 'deny.fasta')
                exp = set()
            filter_fasta(argparse.Namespace(**base))
            out = (d / 'out.fasta').read_text() if (d / 'out.fasta').exists() else ''
            got, cur = set(), ''
            for l in out.splitlines() + ['>']:
                if l.startswith('>'):
                    if cur:
                        got.add(cur)
                    cur = ''
                else:
                    cur += l.strip()
            if got != exp:
                return dict(call=f'filterFasta, case {inp["case"]}', observed=sorted(x[:30] for x in got), expected=sorted(x[:30] for x in exp), signature='output-is-not-what-passed:' + inp['case'])
        finally:
            shutil.rmtree(d, ignore_errors=True)
        return None


NATIVE = [NativeFilter(), NativeFilterCLI(), NativeFilterFiles()]
