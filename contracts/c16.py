"""C16 — parseRMATS records reproduce the alternative isoform (DESIGN.md §3 C16).

Proved: exon lookups, the junctions each event builds (coordinates, novel side, read-support gate), the dispatcher from an
alignment to the record constructors (call-site preconditions of the constructors) and the constructors themselves. The
top-level statement - applying each emitted record to the transcript gives the transcript with the event's alternative
form - is decided here only by a labelled bounded small-scope check on the real code."""
from __future__ import annotations
import types
import z3
from pyvc.contract import Contract, Lemma, register
from pyvc.core import Unsupported, as_bool
from pyvc.interp import LoopSpec, PyRaise
from pyvc.values import *
from pyvc.pstr import PStr
from .lib import *
from .c11 import mk_gene_tagged, mk_tx_tagged, g2gene_val

SJ = 'moPepGen/seqvar/SplicingJunction.py'
TAM = 'moPepGen/gtf/TranscriptAnnotationModel.py'
I_, B_ = z3.IntSort(), z3.BoolSort()


# ----------------------------------------------------------------------------
# L3: exon lookups used by the junction alignment
# ----------------------------------------------------------------------------
class _ExonLookup(Contract):
    """first exon (in genomic order) with the given start / end / containing the position, or -1"""
    props = ('C16',)
    models = (install_exon_identity,)
    which = 'start'

    def setup(self, I):
        h = mk_tx_tagged(I)
        x = I.e.int('x')
        for a in h.axioms:
            I.e.assume(a)
        self._cur = types.SimpleNamespace(args=[h.obj, x], h=h, x=x)
        return self._cur

    def hit(self, j):
        h, x = self._cur.h, self._cur.x
        return {'start': h.s[j] == x, 'end': h.e[j] == x, 'containing': z3.And(h.s[j] <= x, x < h.e[j])}[self.which]

    def inv(self, I, env, k):
        j = z3.Int('j_lk')
        return [('no-earlier-exon-matches', z3.ForAll([j], z3.Implies(z3.And(0 <= j, j < k), z3.Not(self.hit(j)))))]

    @property
    def loops(self):
        return {0: LoopSpec(inv=self.inv)}

    def post_return(self, I, st, ret):
        j = z3.Int('j_post')
        h = st.h
        I.e.prove(f'C16/exon-with-{self.which}/index-of-the-matching-exon-or-minus-one',
                  z3.Or(z3.And(ret == -1, z3.ForAll([j], z3.Implies(z3.And(0 <= j, j < h.n), z3.Not(self.hit(j))))),
                        z3.And(0 <= ret, ret < h.n, self.hit(ret))))

    def summary(self, I, args, kwargs):
        if len(args) > 2 or kwargs:
            raise Unsupported('exon lookup with an offset')
        h = args[0].tag
        saved = self._cur if hasattr(self, '_cur') else None
        self._cur = types.SimpleNamespace(h=h, x=args[1])
        try:
            e = I.e
            r = e.int(f'exon_with_{self.which}')
            j = z3.Int(e.fresh_name('j_sum'))
            e.assume(z3.Or(z3.And(r == -1, z3.ForAll([j], z3.Implies(z3.And(0 <= j, j < h.n), z3.Not(self.hit(j))))),
                           z3.And(0 <= r, r < h.n, self.hit(r))))
            e.assume(z3.And(r >= -1, r < h.n))
            return r
        finally:
            if saved is not None:
                self._cur = saved


@register
class ExonWithStart(_ExonLookup):
    path, qualname = TAM, 'TranscriptAnnotationModel.get_exon_with_start'
    which = 'start'


@register
class ExonWithEnd(_ExonLookup):
    path, qualname = TAM, 'TranscriptAnnotationModel.get_exon_with_end'
    which = 'end'


@register
class ExonContaining(_ExonLookup):
    path, qualname = TAM, 'TranscriptAnnotationModel.get_exon_containing'
    which = 'containing'


@register
class HasJunction(Contract):
    """True iff two consecutive exons end / start exactly at the junction"""
    path, qualname, props = TAM, 'TranscriptAnnotationModel.has_junction', ('C16',)
    models = (install_exon_identity,)

    def setup(self, I):
        h = mk_tx_tagged(I)
        a, b = I.e.int('junction_start'), I.e.int('junction_end')
        for ax in h.axioms + [a < b]:
            I.e.assume(ax)
        jn = SymObj('FeatureLocation', start=a, end=b, strand=None, seqname=None, reading_frame_index=None, start_offset=0, end_offset=0, ref=None, ref_db=None)
        self._cur = types.SimpleNamespace(args=[h.obj, jn], h=h, a=a, b=b)
        return self._cur

    def has(self, j):
        st = self._cur
        return z3.And(0 <= j, j < st.h.n - 1, st.h.e[j] == st.a, st.h.s[j + 1] == st.b)

    def inv(self, I, env, k):
        j = z3.Int('j_hj')
        return [('no-earlier-pair-forms-the-junction', z3.ForAll([j], z3.Implies(z3.And(0 <= j, j < k), z3.Not(self.has(j)))))]

    @property
    def loops(self):
        return {0: LoopSpec(inv=self.inv)}

    def post_return(self, I, st, ret):
        j = z3.Int('j_post')
        I.e.prove('C16/has_junction/iff-some-consecutive-exon-pair-forms-it', as_bool(ret) == z3.Exists([j], self.has(j)))

    def summary(self, I, args, kwargs):
        h, jn = args[0].tag, args[1]
        j = z3.Int(I.e.fresh_name('j_hjs'))
        return z3.Exists([j], z3.And(0 <= j, j < h.n - 1, h.e[j] == jn.fields['start'], h.s[j + 1] == jn.fields['end']))


# ----------------------------------------------------------------------------
# junction novelty and alignment
# ----------------------------------------------------------------------------
@register
class JunctionIsNovel(Contract):
    """novel iff no transcript of the gene has the junction"""
    path, qualname, props = SJ, 'SpliceJunction.is_novel', ('C16',)

    def setup(self, I):
        e = I.e
        st = types.SimpleNamespace()
        st.N = e.int('n_tx')
        e.assume(st.N >= 0)
        st.has = z3.Function('transcript_has_the_junction', I_, B_)
        st.ue, st.ds = e.int('upstream_end'), e.int('downstream_start')
        e.assume(st.ue < st.ds)           # a junction spans an intron
        txids = FnView(st.N, lambda i: SymObj('TxId16', i=i if is_z3(i) else z3.IntVal(i)), tag='transcripts')
        gene = SymObj('GeneStub16', transcripts=txids)
        anno = SymObj('AnnoStub16', genes={'G': gene}, transcripts=SymObj('TxTable16'))
        st.junction = SymObj('SpliceJunction', upstream_start=e.int('us'), upstream_end=st.ue, downstream_start=st.ds, downstream_end=e.int('de'),
                             gene_id='G', chrom='chr1')
        st.args = [st.junction, anno]
        self._cur = st
        return st

    @property
    def models(self):
        c = self

        def inst(reg):
            reg.protocol_('TxTable16', '__getitem__', lambda I, o, key: SymObj('TxStub16', i=key.fields['i']))

            def has_junction(I, o, a, k):
                st = c._cur
                jn = a[0]
                I.e.prove('C16/is_novel/asks-for-the-junction-between-upstream-end-and-downstream-start',
                          z3.And(jn.fields['start'] == st.ue, jn.fields['end'] == st.ds))
                return st.has(o.fields['i'])
            reg.method_('TxStub16', 'has_junction', has_junction)
        return (inst,)

    def inv(self, I, env, k):
        j = z3.Int('j_nov')
        return [('no-earlier-transcript-has-it', z3.ForAll([j], z3.Implies(z3.And(0 <= j, j < k), z3.Not(self._cur.has(j)))))]

    @property
    def loops(self):
        return {0: LoopSpec(inv=self.inv)}

    def post_return(self, I, st, ret):
        j = z3.Int('j_post')
        I.e.prove('C16/is_novel/iff-no-transcript-of-the-gene-has-the-junction',
                  as_bool(ret) == z3.ForAll([j], z3.Implies(z3.And(0 <= j, j < st.N), z3.Not(st.has(j)))))


@register
class AlignToTranscript(Contract):
    """the alignment records, for each of the four junction coordinates, the exon that starts / ends there (or -1); no alignment when the
    side that must be annotated (the one opposite to the novel side) has no such exon"""
    path, qualname, props = SJ, 'SpliceJunction.align_to_transcript', ('C16',)
    models = (install_exon_identity,)

    def setup(self, I):
        e = I.e
        h = mk_tx_tagged(I)
        for a in h.axioms:
            e.assume(a)
        st = types.SimpleNamespace(h=h)
        st.c = {n: e.int(n) for n in ('upstream_start', 'upstream_end', 'downstream_start', 'downstream_end')}
        st.un, st.dn = e.bool('upstream_novel'), e.bool('downstream_novel')
        jn = SymObj('SpliceJunction', gene_id='G', chrom='chr1', **st.c)
        st.args = [jn, h.obj, st.un, st.dn]
        self._cur = st
        return st

    def idx_ok(self, r, which, x):
        h = self._cur.h
        j = z3.Int('j_al')
        hit = lambda q: (h.s[q] == x) if which == 'start' else (h.e[q] == x)
        return z3.Or(z3.And(r == -1, z3.ForAll([j], z3.Implies(z3.And(0 <= j, j < h.n), z3.Not(hit(j))))), z3.And(0 <= r, r < h.n, hit(r)))

    def post_return(self, I, st, ret):
        e = I.e
        h = st.h
        j = z3.Int('j_p')
        no_ds = z3.ForAll([j], z3.Implies(z3.And(0 <= j, j < h.n), h.s[j] != st.c['downstream_start']))
        no_ue = z3.ForAll([j], z3.Implies(z3.And(0 <= j, j < h.n), h.e[j] != st.c['upstream_end']))
        if ret is None:
            e.prove('C16/align/none-iff-the-annotated-side-is-unmatched', z3.Or(z3.And(st.un, no_ds), z3.And(st.dn, no_ue)))
            return
        f = ret.fields
        e.prove('C16/align/aligned-only-if-the-annotated-side-is-matched', z3.Not(z3.Or(z3.And(st.un, no_ds), z3.And(st.dn, no_ue))))
        e.prove('C16/align/indices-are-the-exons-with-these-boundaries',
                z3.And(self.idx_ok(f['upstream_start_index'], 'start', st.c['upstream_start']), self.idx_ok(f['upstream_end_index'], 'end', st.c['upstream_end']),
                       self.idx_ok(f['downstream_start_index'], 'start', st.c['downstream_start']), self.idx_ok(f['downstream_end_index'], 'end', st.c['downstream_end'])))
        e.prove('C16/align/keeps-junction-transcript-and-flags', f['junction'] is st.args[0] and f['tx_model'] is h.obj and f['upstream_novel'] is st.un and f['downstream_novel'] is st.dn)


# ----------------------------------------------------------------------------
# read-support thresholds and the novelty gate in the event records
# ----------------------------------------------------------------------------
RM = 'moPepGen/parser/RMATSParser/'
# junctions in creation order: which read count supports them
EVENTS = {
    'SE': dict(cls='SERecord', kinds=('skip', 'inc', 'inc'),
               fields=('exon_start', 'exon_end', 'upstream_exon_start', 'upstream_exon_end', 'downstream_exon_start', 'downstream_exon_end')),
    'A5SS': dict(cls='A5SSRecord', kinds=('inc', 'skip'),
                 fields=('long_exon_start', 'long_exon_end', 'short_exon_start', 'short_exon_end', 'flanking_exon_start', 'flanking_exon_end')),
    'A3SS': dict(cls='A3SSRecord', kinds=('inc', 'skip'),
                 fields=('long_exon_start', 'long_exon_end', 'short_exon_start', 'short_exon_end', 'flanking_exon_start', 'flanking_exon_end')),
    'MXE': dict(cls='MXERecord', kinds=('inc', 'skip'),
                fields=('first_exon_start', 'first_exon_end', 'second_exon_start', 'second_exon_end', 'upstream_exon_start', 'upstream_exon_end',
                        'downstream_exon_start', 'downstream_exon_end')),
}


# the junctions of an event, from the rMATS event definitions (coordinates are genomic, so "upstream" is the genomically lower exon whatever the
# strand): (form, genomically lower exon, genomically higher exon), in the order the form's read counts are tested; the exons that define the
# event (skipped exon, long / short exon, first / second exon) may be absent from a transcript ("novel" side), the constitutive neighbours
# (upstream / downstream / flanking exon) must be exons of the transcript
CONSTITUTIVE = ('upstream_exon', 'downstream_exon', 'flanking_exon')


def expected_junctions(event, strand_is_plus):
    if event == 'SE':
        return [('skip', 'upstream_exon', 'downstream_exon'), ('inc', 'upstream_exon', 'exon'), ('inc', 'exon', 'downstream_exon')]
    if event == 'MXE':
        return [('inc', 'first_exon', 'downstream_exon'), ('skip', 'upstream_exon', 'second_exon')]
    # alternative 5' site: the donor (exon end in transcript direction) varies, the flanking exon follows in transcript direction;
    # alternative 3' site: the acceptor varies, the flanking exon precedes in transcript direction
    flank_is_higher = (event == 'A5SS') == strand_is_plus
    if flank_is_higher:
        return [('inc', 'long_exon', 'flanking_exon'), ('skip', 'short_exon', 'flanking_exon')]
    return [('inc', 'flanking_exon', 'long_exon'), ('skip', 'flanking_exon', 'short_exon')]


class GhostVariants16:
    def __init__(self, owner):
        self.owner = owner

    def sym_iadd(self, I, other):
        self.owner._cur.added.append(other)
        return self

    def sym_iter_concrete(self, I):
        return list(self.owner._cur.added)


class _RmatsGating(Contract):
    """a junction is aligned to a transcript (and may yield records) only if the read count that supports its form reaches the threshold;
    nothing is emitted when every junction of the event is already annotated; every record comes from an alignment of one of the
    event's junctions to a transcript of the gene"""
    props = ('C16',)
    event = 'SE'
    assumptions = ('havoc: SpliceJunction.is_novel / align_to_transcript and SpliceJunctionTranscriptAlignment.convert_to_variant_records are '
                   'their own contracts seen as uninterpreted results here; create_variant_id and get_gene_sequence are external',)

    @property
    def path(self):
        return RM + EVENTS[self.event]['cls'] + '.py'

    @property
    def qualname(self):
        return EVENTS[self.event]['cls'] + '.convert_to_variant_records'

    def setup(self, I):
        e = I.e
        cfg = EVENTS[self.event]
        st = types.SimpleNamespace(junctions=[], aligns=[], added=[], converts=[])
        st.N = e.int('n_tx')
        e.assume(st.N >= 0)
        st.ijc, st.sjc, st.min_ijc, st.min_sjc = e.int('ijc'), e.int('sjc'), e.int('min_ijc'), e.int('min_sjc')
        st.novel = [e.bool(f'junction{i}_novel') for i in range(len(cfg['kinds']))]
        st.aligned = z3.Function('junction_aligns_to_transcript', I_, I_, B_)
        rec = SymObj(cfg['cls'], gene_id='G', gene_symbol='S', chrom='chr1', ijc_sample_1=st.ijc, sjc_sample_1=st.sjc, ijc_sample_2=None, sjc_sample_2=None,
                     **{f: e.int(f) for f in cfg['fields']})
        txids = FnView(st.N, lambda i: SymObj('TxId16', i=i if is_z3(i) else z3.IntVal(i)), tag='transcripts')
        loc = SymObj('FeatureLocation', start=0, end=100, strand=e.int('gene_strand'), seqname='chr1', reading_frame_index=None, start_offset=0, end_offset=0,
                     ref=None, ref_db=None)
        e.assume(z3.Or(loc.fields['strand'] == 1, loc.fields['strand'] == -1))
        st.rec, st.plus, st.rec_strand = rec, None, loc.fields['strand']
        gene = SymObj('GeneStub16', transcripts=txids, location=loc, strand=loc.fields['strand'])
        st.anno = SymObj('AnnoStub16', genes={'G': gene}, transcripts=SymObj('TxTable16'))
        st.args = [rec, st.anno, SymObj('Genome16'), st.min_ijc, st.min_sjc]
        self._cur = st
        return st

    @property
    def models(self):
        c = self

        def inst(reg):
            reg.protocol_('TxTable16', '__getitem__', lambda I, o, key: SymObj('TxStub16', i=key.fields['i']))
            reg.protocol_('Genome16', '__getitem__', lambda I, o, key: SymObj('Chrom16'))
            reg.method_('GeneStub16', 'get_gene_sequence', lambda I, o, a, k: SymObj('GeneSeq16'))
            reg.method_(EVENTS[c.event]['cls'], 'create_variant_id', lambda I, o, a, k: SymObj('VarId16'))

            def mk_junction(I, a, k):
                st = c._cur
                names = ('upstream_start', 'upstream_end', 'downstream_start', 'downstream_end', 'gene_id', 'chrom')
                k = {**dict(zip(names, a)), **k}
                n = len(st.junctions)
                if st.plus is None:
                    # the strand of the gene decides which exon of an alternative-site event is genomically lower
                    st.plus = I.e.branch(st.rec_strand == 1, 'gene on the + strand')
                exp = expected_junctions(c.event, st.plus)
                if n < len(exp):
                    form, lo, hi = exp[n]
                    f = st.rec.fields
                    I.e.prove(f'C16/gating/junction-{n}-joins-{lo}-and-{hi}-in-genomic-order-on-the-gene-of-the-event',
                              z3.And(k['upstream_start'] == f[lo + '_start'], k['upstream_end'] == f[lo + '_end'],
                                     k['downstream_start'] == f[hi + '_start'], k['downstream_end'] == f[hi + '_end'])
                              if all(x in k for x in names) and k['gene_id'] == f['gene_id'] and k['chrom'] == f['chrom'] else False)
                else:
                    I.e.prove('C16/gating/no-junction-beyond-those-of-the-event', False)
                j = SymObj('SpliceJunction', j=n, **k)
                st.junctions.append(j)
                return j
            reg.ctor_('SpliceJunction', mk_junction)
            reg.method_('SpliceJunction', 'is_novel', lambda I, o, a, k: c._cur.novel[o.fields['j']])

            def align(I, o, a, k):
                st = c._cur
                tx = a[0]
                st.aligns.append((o.fields['j'], tx.fields['i']))
                exp = expected_junctions(c.event, st.plus)
                if o.fields['j'] < len(exp):
                    _, lo, hi = exp[o.fields['j']]
                    flags = (list(a[1:]) + [k.get('upstream_novel'), k.get('downstream_novel')])[:2] if len(a) < 3 else list(a[1:3])
                    if len(a) == 2:
                        flags = [a[1], k.get('downstream_novel')]
                    elif len(a) == 1:
                        flags = [k.get('upstream_novel'), k.get('downstream_novel')]
                    I.e.prove(f'C16/gating/junction-{o.fields["j"]}-only-the-event-exon-side-may-be-absent-from-the-transcript',
                              flags[0] is (lo not in CONSTITUTIVE) and flags[1] is (hi not in CONSTITUTIVE))
                if I.e.branch(st.aligned(o.fields['j'], tx.fields['i']), 'junction aligns'):
                    return SymObj('Aln16', j=o.fields['j'], i=tx.fields['i'])
                return None
            reg.method_('SpliceJunction', 'align_to_transcript', align)

            def convert(I, o, a, k):
                st = c._cur
                I.e.prove('C16/gating/alignment-converted-with-the-annotation', a[0] is st.anno)
                r = SymObj('Records16', j=o.fields['j'], i=o.fields['i'])
                st.converts.append(r)
                return r
            reg.method_('Aln16', 'convert_to_variant_records', convert)
            reg.set_hooks.append(lambda v: (lambda I, v: v) if isinstance(v, GhostVariants16) else None)
        return (inst,)

    def havoc(self, I, env, k):
        env['variants'] = GhostVariants16(self)

    def on_head(self, I, env, k):
        st = self._cur
        st.pre = dict(na=len(st.aligns), nd=len(st.added), nc=len(st.converts))

    def step(self, I, env, k):
        st = self._cur
        kinds = EVENTS[self.event]['kinds']
        items = [('every-junction-of-the-event-was-created', len(st.junctions) == len(kinds))]
        aligns = st.aligns[st.pre['na']:]
        for j, i in aligns:
            sup = (st.ijc >= st.min_ijc) if kinds[j] == 'inc' else (st.sjc >= st.min_sjc)
            items.append((f'junction-{j}-aligned-only-with-sufficient-read-support', z3.And(sup, i == k)))
        for j, kind in enumerate(kinds):
            if j not in [a[0] for a in aligns] and not (self.event == 'MXE' and kind == 'skip'):
                sup = (st.ijc >= st.min_ijc) if kind == 'inc' else (st.sjc >= st.min_sjc)
                items.append((f'junction-{j}-skipped-only-without-read-support', z3.Not(sup)))
        added, conv = st.added[st.pre['nd']:], st.converts[st.pre['nc']:]
        items.append(('collected=records-of-the-alignments-of-this-transcript', len(added) == len(conv) and all(x is y for x, y in zip(added, conv))))
        return items

    @property
    def loops(self):
        return {0: LoopSpec(inv=lambda I, env, k: [], havoc=self.havoc, on_head=self.on_head, step=self.step)}

    def post_return(self, I, st, ret):
        if isinstance(ret, list) and not ret and not st.aligns and not hasattr(st, 'pre'):
            I.e.prove('C16/gating/nothing-emitted-without-the-loop-only-if-every-junction-is-annotated', z3.Not(z3.Or(*st.novel)))
        else:
            I.e.prove('C16/gating/records-only-if-some-junction-is-novel', z3.Or(*st.novel))


for _ev in EVENTS:
    register(type(f'RmatsGating_{_ev}', (_RmatsGating,), dict(event=_ev)))


# ----------------------------------------------------------------------------
# retained intron: reference classification, gating and the records themselves
# ----------------------------------------------------------------------------
class GhostTxList:
    """a list of transcript ids that is only appended to: members as a predicate over transcript indices plus a symbolic count"""
    def __init__(self, I, name):
        self.name = name
        self.mem = z3.Function(I.e.fresh_name(f'in_{name}'), I_, B_)
        i = z3.Int('i_empty')
        I.e.assume(z3.ForAll([i], z3.Not(self.mem(i))))
        self.cnt = z3.IntVal(0)

    def havoc(self, I):
        self.mem = z3.Function(I.e.fresh_name(f'in_{self.name}'), I_, B_)
        self.cnt = I.e.int(f'n_{self.name}')
        I.e.assume(self.cnt >= 0)

    def sym_method(self, I, name, a, k):
        if name != 'append' or not (isinstance(a[0], SymObj) and a[0].cls == 'TxId16'):
            raise Unsupported(f'{self.name}.{name}')
        new = z3.Function(I.e.fresh_name(f'in_{self.name}'), I_, B_)
        i = z3.Int('i_app')
        I.e.assume(z3.ForAll([i], new(i) == z3.Or(self.mem(i), i == a[0].fields['i'])))
        self.mem, self.cnt = new, self.cnt + 1
        return None

    def sym_truth(self, I):
        return self.cnt > 0

    def sym_view(self, I):
        g = self

        def get(t):
            m = I.e.int(f'member_of_{g.name}')
            I.e.assume(g.mem(m))
            return SymObj('TxId16', i=m)
        return FnView(self.cnt, get, tag=self.name)


class ExonIter16:
    def __init__(self, view):
        self.view, self.pos = view, 0

    def sym_next(self, I, rest):
        n = self.view.length()
        c = I.compare('<', self.pos, n)
        if c is True or (c is not False and I.e.branch(c, 'next:has-exon')):
            x = self.view.get(self.pos)
            self.pos = self.pos + 1
            return x
        if rest:
            return rest[0]
        I.raise_('StopIteration')


@register
class RIConvert(Contract):
    """retained intron U..D (upstream exon end, downstream exon start): a transcript is 'spliced' iff two consecutive exons end at U and
    start at D, 'retaining' iff one exon strictly contains the intron; insertion records (intron inserted after the last exon base before
    it, in transcript direction) are emitted for every spliced transcript iff no transcript retains it and ijc >= min_ijc; deletion records
    (the gene-coordinate image of the intron) for every retaining transcript iff no transcript splices it and sjc >= min_sjc"""
    path, qualname, props = RM + 'RIRecord.py', 'RIRecord.convert_to_variant_records', ('C16',)
    declared_raises = ['ValueError']
    models = (install_exon_identity,)
    assumptions = ('assumed: exons of a transcript are sorted, non-empty and disjoint (GTF); get_gene_sequence returns the gene sequence in gene '
                   'orientation; iteration axiom: a for loop over a list visits every member once',
                   'summary: coordinate_genomic_to_gene is its proved contract (C11)')

    def setup(self, I):
        e = I.e
        st = types.SimpleNamespace(records=[])
        st.gn = mk_gene_tagged(I, gene_id='G')
        st.h = mk_tx_tagged(I, gene_id='G')
        for a in st.h.axioms:
            e.assume(a)
        e.assume(st.gn.start < st.gn.end)
        st.N = e.int('n_tx')
        e.assume(st.N >= 0)
        st.U, st.D = e.int('upstream_exon_end'), e.int('downstream_exon_start')
        st.ijc, st.sjc, st.min_ijc, st.min_sjc = e.int('ijc'), e.int('sjc'), e.int('min_ijc'), e.int('min_sjc')
        st.SPL, st.RET = z3.Function('transcript_splices_the_intron', I_, B_), z3.Function('transcript_retains_the_intron', I_, B_)
        st.G = PStr.sym(e, 'gene_seq', st.gn.end - st.gn.start)
        zz = lambda i: i if is_z3(i) else z3.IntVal(i)
        txids = FnView(st.N, lambda i: SymObj('TxId16', i=zz(i)), tag='transcripts')
        st.gn.obj.fields['transcripts'] = txids
        st.gn.obj.fields['gene_name'] = 'SYMBOL'
        st.anno = SymObj('GenomicAnnotation', genes={'G': st.gn.obj}, transcripts=SymObj('TxTable16'), source='GENCODE', gene_id_version_mapper=None,
                         version=None, _cached_tx_seqs=[])
        rec = SymObj('RIRecord', gene_id='G', gene_symbol='S', chrom='chr1', retained_intron_exon_start=e.int('ri_start'),
                     retained_intron_exon_end=e.int('ri_end'), upstream_exon_start=e.int('up_start'), upstream_exon_end=st.U,
                     downstream_exon_start=st.D, downstream_exon_end=e.int('down_end'), ijc_sample_1=st.ijc, sjc_sample_1=st.sjc,
                     ijc_sample_2=None, sjc_sample_2=None)
        st.args = [rec, st.anno, SymObj('Genome16'), st.min_ijc, st.min_sjc]
        st.spl, st.ret = None, None
        self._cur = st
        return st

    # ---- specification pieces
    def spliced_f(self, st):
        h, j = st.h, z3.Int('j_spl')
        return z3.Exists([j], z3.And(0 <= j, j + 1 < h.n, h.e[j] == st.U, h.s[j + 1] == st.D))

    def contain(self, st, j):
        h = st.h
        return z3.And(h.s[j] < st.U, st.U < st.D, st.D < h.e[j] - 1)

    def retained_f(self, st, upto=None):
        h, j = st.h, z3.Int('j_ret')
        return z3.Exists([j], z3.And(0 <= j, j < (h.n if upto is None else upto), self.contain(st, j)))

    def intron_gene(self, st):
        gn = st.gn
        return (z3.If(gn.strand == 1, st.U - gn.start, gn.end - st.D), z3.If(gn.strand == 1, st.D - gn.start, gn.end - st.U))

    @property
    def models(self):
        c = self

        def inst(reg):
            reg.protocol_('TxTable16', '__getitem__', lambda I, o, key: c._cur.h.obj)
            reg.protocol_('Genome16', '__getitem__', lambda I, o, key: SymObj('Chrom16'))
            reg.method_('GeneAnnotationModel', 'get_gene_sequence', lambda I, o, a, k: SymObj('GeneSeq16', seq=c._cur.G))
            reg.iter_hooks.append(lambda I, v: ExonIter16(v) if v is c._cur.h.exon else None)

            def mk_record(I, a, k):
                st = c._cur
                names = ['location', 'ref', 'alt', 'type', 'id', 'attrs']
                f = dict(zip(names, a))
                r = SymObj('VariantRecord', **f)
                st.records.append(r)
                return r
            reg.ctor_('VariantRecord', mk_record)
        return (inst,)

    # ---- loop 0: transcripts of the gene
    def havoc0(self, I, env, k):
        st = self._cur
        for nm in ('spliced_in_ref', 'retained_in_ref'):
            g = env[nm]
            if not isinstance(g, GhostTxList):
                g = GhostTxList(I, nm)
                env[nm] = g
            g.havoc(I)
        st.spl, st.ret = env['spliced_in_ref'], env['retained_in_ref']

    def init0(self, I, env):
        st = self._cur
        env['spliced_in_ref'], env['retained_in_ref'] = GhostTxList(I, 'spliced_in_ref'), GhostTxList(I, 'retained_in_ref')
        st.spl, st.ret = env['spliced_in_ref'], env['retained_in_ref']

    def inv0(self, I, env, k):
        st = self._cur
        i = z3.Int('i_tx')
        spl, ret = env['spliced_in_ref'], env['retained_in_ref']
        if not isinstance(spl, GhostTxList):
            return [('lists-empty-at-entry', spl == [] and ret == [])]
        return [('spliced-list=spliced-transcripts-so-far', z3.ForAll([i], spl.mem(i) == z3.And(0 <= i, i < k, st.SPL(i)))),
                ('retained-list=retaining-transcripts-so-far', z3.ForAll([i], ret.mem(i) == z3.And(0 <= i, i < k, st.RET(i)))),
                ('non-empty-iff-a-member', z3.And((spl.cnt > 0) == z3.Exists([i], spl.mem(i)), (ret.cnt > 0) == z3.Exists([i], ret.mem(i)), spl.cnt >= 0, ret.cnt >= 0)),
                # quantifier-free consequence, so that the record loops are not entered on paths without transcripts
                ('empty-before-the-first-transcript', z3.Implies(k == 0, z3.And(spl.cnt == 0, ret.cnt == 0)))]

    def head0(self, I, env, k):
        st = self._cur
        # definition of the two classes for the transcript of this iteration
        I.e.assume(z3.And(st.SPL(k) == self.spliced_f(st), st.RET(k) == self.retained_f(st)))
        st.c0 = (st.spl.cnt, st.ret.cnt)
        st.k = k

    # ---- loop 1: while exon
    def cur_index(self, I, env):
        st = self._cur
        ex = env['exon']
        it = env['it']
        return st.h.n if ex is None else it.pos - 1

    def havoc1(self, I, env, k):
        st = self._cur
        st.spl.havoc(I)
        st.ret.havoc(I)
        it = env['it']
        c = I.e.int('cur')
        I.e.assume(z3.And(0 <= c, c <= st.h.n))
        if I.e.branch(c < st.h.n, 'exon left'):
            env['exon'] = st.h.exon.get(c)
            it.pos = c + 1
        else:
            env['exon'] = None
            it.pos = st.h.n

    def inv1(self, I, env, k):
        st = self._cur
        h = st.h
        c = self.cur_index(I, env)
        j, i = z3.Int('j_pair'), z3.Int('i_m')
        kk = st.k
        spl0, ret0 = st.c0
        return [('cursor-in-range', z3.And(0 <= c, c <= h.n)),
                ('not-yet-classified-as-spliced', z3.And(st.spl.cnt == spl0, z3.Not(st.spl.mem(kk)))),
                ('no-spliced-pair-before-the-cursor', z3.ForAll([j], z3.Implies(z3.And(0 <= j, j < c, j + 1 < h.n), z3.Not(z3.And(h.e[j] == st.U, h.s[j + 1] == st.D))))),
                ('retained-recorded-iff-a-containing-exon-was-passed', z3.And(st.ret.cnt == ret0 + z3.If(self.retained_f(st, c), 1, 0),
                                                                             st.ret.mem(kk) == self.retained_f(st, c))),
                ('other-transcripts-untouched', z3.ForAll([i], z3.Implies(i != kk, z3.And(st.spl.mem(i) == z3.And(0 <= i, i < kk, st.SPL(i)),
                                                                                         st.ret.mem(i) == z3.And(0 <= i, i < kk, st.RET(i))))))]

    def step0(self, I, env, k):
        st = self._cur
        spl0, ret0 = st.c0
        return [('spliced-iff-consecutive-exons-end-at-U-and-start-at-D', z3.And(st.spl.cnt == spl0 + z3.If(self.spliced_f(st), 1, 0), st.spl.mem(k) == self.spliced_f(st))),
                ('retaining-iff-an-exon-strictly-contains-the-intron', z3.And(st.ret.cnt == ret0 + z3.If(self.retained_f(st), 1, 0), st.ret.mem(k) == self.retained_f(st)))]

    # ---- loops 2 / 3: the records
    def head_rec(self, I, env, k):
        self._cur.nrec = len(self._cur.records)

    def step_rec(self, kind):
        def step(I, env, k):
            st = self._cur
            new = st.records[st.nrec:]
            items = [('exactly-one-record-per-transcript', len(new) == 1)]
            if len(new) != 1:
                return items
            r = new[0]
            tx = env['tx_id']
            a, b = self.intron_gene(st)
            i = z3.Int('i_any')
            none_ret = z3.Not(z3.Exists([i], z3.And(0 <= i, i < st.N, st.RET(i))))
            none_spl = z3.Not(z3.Exists([i], z3.And(0 <= i, i < st.N, st.SPL(i))))
            loc, at = r.fields['location'], r.fields['attrs']
            idp = r.fields['id']
            okid = isinstance(idp, OpaqueStr) and len(idp.parts) == 4 and idp.parts[0] == 'RI_' and idp.parts[2] == '-'
            items.append(('id=RI_<gene interval of the intron>', z3.And(idp.parts[1] == a, idp.parts[3] == b) if okid else False))
            items.append(('record-on-the-gene-for-this-transcript', loc.fields['seqname'] == 'G' and at.get('TRANSCRIPT_ID') is tx))
            # the interval [a, b) used below is exactly the gene-coordinate image of the genomic intron [U, D)
            x = z3.Int('x_intron')
            items.append(('interval-used=gene-coordinate-image-of-the-intron',
                          z3.And(b - a == st.D - st.U, z3.ForAll([x], z3.Implies(z3.And(st.U <= x, x < st.D), z3.And(a <= g2gene_val(st.gn, x), g2gene_val(st.gn, x) < b))),
                                 a - 1 == g2gene_val(st.gn, z3.If(st.gn.strand == 1, st.U - 1, st.D)))))
            if kind == 'ins':
                items.append(('insertion-only-if-no-transcript-retains-and-enough-inclusion-reads', z3.And(none_ret, st.ijc >= st.min_ijc, st.SPL(tx.fields['i']))))
                items.append(('inserted-after-the-last-base-before-the-intron-in-transcript-direction',
                              z3.And(loc.fields['start'] == a - 1, loc.fields['end'] == a, r.fields['type'] == 'Insertion' and r.fields['alt'] == '<INS>')))
                items.append(('donor=gene-interval-of-the-intron', z3.And(at.get('DONOR_START') == a, at.get('DONOR_END') == b, at.get('DONOR_GENE_ID') == 'G' and at.get('COORDINATE') == 'gene')))
                ref = r.fields['ref']
                items.append(('ref=gene-base-at-the-insertion-point', z3.Implies(a - 1 >= 0, ref.get(0) == st.G.get(a - 1)) if isinstance(ref, PStr) else False))
            else:
                items.append(('deletion-only-if-no-transcript-splices-and-enough-skipping-reads', z3.And(none_spl, st.sjc >= st.min_sjc, st.RET(tx.fields['i']))))
                items.append(('deleted=gene-interval-of-the-intron', z3.And(loc.fields['start'] == a, loc.fields['end'] == b, at.get('START') == a, at.get('END') == b,
                                                                           r.fields['type'] == 'Deletion' and r.fields['alt'] == '<DEL>')))
                ref = r.fields['ref']
                items.append(('ref=first-deleted-gene-base', ref.get(0) == st.G.get(a) if isinstance(ref, PStr) else False))
            return items
        return step

    @property
    def loops(self):
        T = lambda I, env, k: []
        return {0: LoopSpec(inv=self.inv0, havoc=self.havoc0, on_init=self.init0, on_head=self.head0, step=self.step0),
                1: LoopSpec(inv=self.inv1, havoc=self.havoc1),
                # `variants` only collects the records whose construction the step obligations check: its content is not used
                2: LoopSpec(inv=T, on_head=self.head_rec, step=self.step_rec('ins'), keep=('variants',)),
                3: LoopSpec(inv=T, on_head=self.head_rec, step=self.step_rec('del'), keep=('variants',))}

    def post_return(self, I, st, ret):
        # reached only on the exit paths of the record loops: which blocks ran is decided by the two gates
        pass


# ----------------------------------------------------------------------------
# junction -> transcript: the deletion records
# ----------------------------------------------------------------------------
class _Run16:
    """interjacent = []: only appended to; its elements are, by the obligations at each append, the exons met in walk order"""
    def __init__(self, owner, c):
        self.owner, self.c = owner, c

    def sym_method(self, I, name, a, k):
        if name == 'append' and len(a) == 1:
            o, h = self.owner, self.owner._cur.h
            i = a[0]
            I.e.prove('C16/interjacent/collected-exon-is-the-next-one-in-walk-order-and-lies-inside-the-junction-gap',
                      z3.And(i == o.at(self.c), 0 <= i, i < h.n, o.inside(i)) if is_sym_int(i) or isinstance(i, int) else False)
            self.c = self.c + 1
            return None
        raise Unsupported(f'interjacent.{name}')

    def sym_view(self, I):
        return FnView(self.c, lambda t: self.owner.at(t if is_z3(t) else z3.IntVal(t)), tag='interjacent (walk order)')

    def sym_len(self, I):
        return self.c

    def sym_truth(self, I):
        return self.c > 0


@register
class InterjacentExons(Contract):
    """the exons between the two ends of a junction, seen from the aligned side: the maximal run of consecutive exons right after the exon
    that ends at the junction's upstream end (or, if that end is not aligned, right before the exon that starts at its downstream start)
    that lie entirely inside [upstream_end, downstream_start], returned in ascending order. (Every obligation is quantifier-free: the
    sortedness of the exons is assumed at the exon positions involved; that every exon between the first and the last of the run lies
    inside as well is the lemma skipped_bases_lie_in_the_hull)"""
    path, qualname, props = SJ, 'SpliceJunctionTranscriptAlignment.get_interjacent_exons', ('C16',)
    declared_raises = ['ValueError']
    models = (install_exon_identity,)
    assumptions = ('requires (contract of align_to_transcript): an index is -1 or the position of the exon with that boundary (neither side aligned: '
                   'nothing lies between); exons sorted, non-empty, disjoint and non-adjacent (assumed as ground instances at the positions involved)',)

    def setup(self, I):
        e = I.e
        st = types.SimpleNamespace(terms=[])
        st.h = mk_tx_tagged(I, gene_id='G')
        h = st.h
        e.assume(h.n >= 1)
        st.U, st.D = e.int('junction_upstream_end'), e.int('junction_downstream_start')
        st.ue, st.ds = e.int('upstream_end_index'), e.int('downstream_start_index')
        e.assume(z3.And(st.U < st.D, z3.Or(st.ue == -1, z3.And(0 <= st.ue, st.ue < h.n, h.e[st.ue] == st.U)),
                        z3.Or(st.ds == -1, z3.And(0 <= st.ds, st.ds < h.n, h.s[st.ds] == st.D))))
        self._cur = st
        for t in (st.ue, st.ds, self.at(z3.IntVal(0))):
            self.term(I, t)
        junction = SymObj('SpliceJunction', upstream_start=None, upstream_end=st.U, downstream_start=st.D, downstream_end=None, gene_id='G', chrom='chr1')
        st.args = [SymObj('SpliceJunctionTranscriptAlignment', junction=junction, tx_model=h.obj, upstream_start_index=-1, upstream_end_index=st.ue,
                          downstream_start_index=st.ds, downstream_end_index=-1, upstream_novel=True, downstream_novel=True)]
        return st

    def term(self, I, t):
        """ground instances of "exons non-empty, sorted, disjoint, non-adjacent" for the exon position t against all earlier ones"""
        st, h = self._cur, self._cur.h
        inr = lambda q: z3.And(0 <= q, q < h.n)
        facts = [z3.Implies(inr(t), z3.And(h.s[t] < h.e[t], h.s[t] >= 0))]
        for u in st.terms:
            facts.append(z3.Implies(z3.And(inr(t), inr(u), t < u), h.e[t] < h.s[u]))
            facts.append(z3.Implies(z3.And(inr(t), inr(u), u < t), h.e[u] < h.s[t]))
        st.terms.append(t)
        I.e.assume(z3.And(*facts))

    def inside(self, i):
        st = self._cur
        return z3.And(st.U <= st.h.s[i], st.h.e[i] <= st.D)

    def at(self, q):
        """the q-th exon of the walk: forwards from the exon ending at the upstream end when there is one, else backwards from the exon
        starting at the downstream start (decided from the indices, not from a local of the code)"""
        st = self._cur
        return z3.If(st.ue > -1, st.ue + 1 + q, st.ds - 1 - q)

    def straddles(self, i):
        st, h = self._cur, self._cur.h
        return z3.If(st.ue > -1, z3.And(h.s[i] < st.D, st.D < h.e[i]), z3.And(h.s[i] < st.U, st.U < h.e[i]))

    def havoc(self, I, env, k):
        c = I.e.int('n_collected')
        env['interjacent'] = _Run16(self, c)
        for t in (self.at(k), self.at(k - 1), self.at(c - 1), self.at(c)):
            self.term(I, t)

    def inv(self, I, env, k):
        lst = env['interjacent']
        if isinstance(lst, list):
            return [('nothing-collected-at-entry', len(lst) == 0)]
        if not isinstance(lst, _Run16):
            return [('the-collection-is-only-appended-to', False)]
        c = lst.c
        # the collected exons are an initial piece of the walk; once a scanned exon was not collected (it is not inside the gap) nothing
        # more is collected (an append proves "next in walk order", which then fails)
        return [('collected=the-initial-run-of-the-walk-up-to-the-first-exon-not-inside-the-gap', z3.And(c <= k, z3.Implies(c < k, z3.Not(self.inside(self.at(c)))))),
                ('first-and-last-collected-exon-lie-inside-the-junction-gap', z3.And(c >= 0, z3.Implies(c > 0, z3.And(self.inside(self.at(z3.IntVal(0))), self.inside(self.at(c - 1))))))]

    @property
    def loops(self):
        return {0: LoopSpec(inv=self.inv, havoc=self.havoc)}

    def post_return(self, I, st, ret):
        h, e = st.h, I.e
        view = I.as_view(ret)
        n = view.length()
        n = n if is_z3(n) else z3.IntVal(n)
        fwd = st.ue > -1
        first = z3.If(fwd, st.ue + 1, st.ds - n)
        nxt = self.at(n)
        for t in (first, first + n - 1, nxt):
            self.term(I, t)
        t = e.int('t_any_position_of_the_result')
        el = (lambda q: view.get(q)) if not (isinstance(ret, list) and not ret) else (lambda q: q)
        e.prove('C16/interjacent/consecutive-exons-inside-the-junction-gap-in-ascending-order',
                z3.And(n >= 0, z3.Implies(z3.And(0 <= t, t < n), z3.And(el(t) == first + t, 0 <= first + t, first + t < h.n)),
                       z3.Implies(n > 0, z3.And(self.inside(first), self.inside(first + n - 1)))))
        e.prove('C16/interjacent/run-is-maximal', z3.Or(nxt < 0, nxt >= h.n, z3.Not(self.inside(nxt))))


class _Spanning(Contract):
    """the exon of the transcript that contains the base next to the junction on this side (the last base before the junction's upstream end /
    the first base at its downstream start), searched among the exons on the far side of the aligned exon when there is one; -1 if no such
    exon contains it"""
    props = ('C16',)
    side = 'upstream'
    models = (install_exon_identity,)
    assumptions = ('requires: an index is -1 or an exon position; exons sorted, non-empty, disjoint; summary: get_exon_containing is its proved contract',)

    @property
    def path(self):
        return SJ

    @property
    def qualname(self):
        return 'SpliceJunctionTranscriptAlignment.get_upstream_end_spanning' if self.side == 'upstream' else 'SpliceJunctionTranscriptAlignment.get_downstream_start_spanning'

    def setup(self, I):
        e = I.e
        st = types.SimpleNamespace()
        st.h = mk_tx_tagged(I, gene_id='G')
        h = st.h
        for a in h.axioms:
            e.assume(a)
        st.U, st.D = e.int('junction_upstream_end'), e.int('junction_downstream_start')
        st.ue, st.ds = e.int('upstream_end_index'), e.int('downstream_start_index')
        e.assume(z3.And(-1 <= st.ue, st.ue < h.n, -1 <= st.ds, st.ds < h.n))
        junction = SymObj('SpliceJunction', upstream_start=None, upstream_end=st.U, downstream_start=st.D, downstream_end=None, gene_id='G', chrom='chr1')
        st.args = [SymObj('SpliceJunctionTranscriptAlignment', junction=junction, tx_model=h.obj, upstream_start_index=-1, upstream_end_index=st.ue,
                          downstream_start_index=st.ds, downstream_end_index=-1, upstream_novel=True, downstream_novel=True)]
        st.x = st.U - 1 if self.side == 'upstream' else st.D
        self._cur = st
        return st

    def holds(self, i):
        st = self._cur
        return z3.And(st.h.s[i] <= st.x, st.x < st.h.e[i])

    def inv(self, I, env, k):
        st = self._cur
        i = env['i']
        j = z3.Int('j_sp')
        if self.side == 'upstream':
            return [('cursor-in-range', z3.And(-1 <= i, i < st.ds)), ('no-later-candidate-contains-the-base', z3.ForAll([j], z3.Implies(z3.And(i < j, j < st.ds), z3.Not(self.holds(j)))))]
        return [('cursor-in-range', z3.And(st.ue < i, i <= st.h.n)), ('no-earlier-candidate-contains-the-base', z3.ForAll([j], z3.Implies(z3.And(st.ue < j, j < i), z3.Not(self.holds(j)))))]

    @property
    def loops(self):
        dec = (lambda I, env, k: env['i'] + 1) if self.side == 'upstream' else (lambda I, env, k: self._cur.h.n - env['i'])
        return {0: LoopSpec(inv=self.inv, decreases=dec)}

    def post_return(self, I, st, ret):
        h = st.h
        j = z3.Int('j_post')
        if self.side == 'upstream':
            cand = lambda q: z3.And(0 <= q, q < h.n, z3.Or(st.ds == -1, q < st.ds))
        else:
            cand = lambda q: z3.And(0 <= q, q < h.n, z3.Or(st.ue == -1, q > st.ue))
        I.e.prove(f'C16/{self.side}-spanning/the-candidate-exon-containing-the-base-or-minus-one',
                  z3.Or(z3.And(ret == -1, z3.ForAll([j], z3.Implies(cand(j), z3.Not(self.holds(j))))), z3.And(cand(ret), self.holds(ret))))


for _side in ('upstream', 'downstream'):
    register(type(f'Spanning_{_side}', (_Spanning,), dict(side=_side)))


class _Interjacent(View):
    """the exons lying between the two ends of a junction: consecutive indices first .. first+m-1 (contract of get_interjacent_exons)"""
    def __init__(self, first, m):
        self.first, self.m = first, m

    def length(self):
        return self.m

    def get(self, t):
        return self.first + (t if is_z3(t) else z3.IntVal(t))

    def sym_truth(self, I):
        return self.m > 0

    def sym_len(self, I):
        return self.m

    def sym_getitem(self, I, idx):
        if idx == 0:
            if not I.e.branch(self.m > 0, 'interjacent non-empty'):
                I.raise_('IndexError', 'list index out of range')
            return self.first
        if idx == -1:
            if not I.e.branch(self.m > 0, 'interjacent non-empty'):
                I.raise_('IndexError', 'list index out of range')
            return self.first + self.m - 1
        raise Unsupported(f'interjacent[{idx!r}]')


# what each record constructor does, in genomic coordinates (these formulas ARE the postconditions of the constructor contracts below;
# the dispatcher contract AlignmentConvert uses the same functions to state what the emitted records denote)
def _mx(a, b):
    return z3.If(a >= b, a, b)


def _mn(a, b):
    return z3.If(a <= b, a, b)


def deletion_hull(side, h, U, D, sp, first, m):
    """[lo, hi): what the junction skips on this side - the part of the spanning exon beyond the junction end and every interjacent exon"""
    last = first + m - 1
    if side == 'upstream':
        return z3.If(h.e[sp] > U, U, h.s[first]), z3.If(m > 0, h.e[last], h.e[sp])
    return z3.If(m > 0, h.s[first], h.s[sp]), z3.If(h.s[sp] < D, D, h.e[last])


def donor_range(kind, h, US, U, D, DE, ue, ds, first, m):
    """[dlo, dhi): the part of the novel exon that the insertion / substitution brings in (clipped at the neighbouring exon)"""
    last = first + m - 1
    if kind == 'upstream_insertion':
        return _mx(h.e[ds - 1], US), U
    if kind == 'downstream_insertion':
        return D, _mn(h.s[ue + 1], DE)
    if kind == 'upstream_substitution':
        return z3.If(first > 0, _mx(h.e[first - 1], US), US), U
    return D, z3.If(last < h.n - 1, _mn(h.s[last + 1], DE), DE)


def insertion_anchor(kind, h, strand, U, D, ue, ds):
    """the exonic base after which (in transcript direction) the donor is inserted"""
    if kind == 'upstream_insertion':
        return z3.If(strand == 1, h.e[ds - 1] - 1, D)
    return z3.If(strand == 1, U - 1, h.s[ue + 1])


class _JunctionDeletion(Contract):
    """the deletion removes, in gene coordinates, exactly the hull of what the junction skips on this side: the part of the spanning exon
    beyond the junction end together with every interjacent exon (nothing more, nothing less at either end), on both strands"""
    props = ('C16',)
    side = 'upstream'
    declared_raises = ['ValueError']
    models = (install_exon_identity,)
    assumptions = ('requires (proved at every call site by the contract of convert_to_variant_records, AlignmentConvert): a spanning exon exists; interjacent exons are consecutive exons between the '
                   'junction ends (contract of get_interjacent_exons) lying after (upstream) / before (downstream) the spanning exon; there is '
                   'something to delete (the spanning exon reaches beyond the junction end or an interjacent exon exists)',
                   'summary: coordinate_genomic_to_gene is its proved contract (C11); exons sorted, non-empty, disjoint')

    @property
    def path(self):
        return SJ

    @property
    def qualname(self):
        return f'SpliceJunctionTranscriptAlignment.create_{self.side}_deletion'

    def setup(self, I):
        e = I.e
        st = types.SimpleNamespace()
        st.gn = mk_gene_tagged(I, gene_id='G')
        st.h = mk_tx_tagged(I, gene_id='G')
        h = st.h
        st.U, st.D = e.int('junction_upstream_end'), e.int('junction_downstream_start')
        st.sp, st.first, st.m = e.int('spanning'), e.int('first_interjacent'), e.int('n_interjacent')
        last = st.first + st.m - 1
        # only the quantifier-free consequences of "exons sorted, non-empty, disjoint" that concern the spanning exon and the first
        # and last interjacent exon are assumed here, so that a wrong interval is refuted with a model (the fact that every
        # exon in between lies inside the hull is the separate lemma skipped_bases_lie_in_the_hull)
        e.assume(z3.And(st.gn.start < st.gn.end, h.n >= 1, 0 <= st.sp, st.sp < h.n, st.m >= 0, st.U < st.D, h.s[st.sp] < h.e[st.sp], h.s[st.sp] >= 0))
        e.assume(z3.Implies(st.m > 0, z3.And(0 <= st.first, st.first + st.m <= h.n, h.s[st.first] < h.e[st.first], h.s[last] < h.e[last],
                                             z3.Implies(st.m >= 2, h.e[st.first] < h.s[last]), st.U <= h.s[st.first], h.e[last] <= st.D)))
        if self.side == 'upstream':
            # spanning exon contains the last base before the junction: s <= U-1 < e ; interjacent exons come right after it
            e.assume(z3.And(h.s[st.sp] <= st.U - 1, st.U - 1 < h.e[st.sp], z3.Implies(st.m > 0, z3.And(st.first == st.sp + 1, h.e[st.sp] < h.s[st.first]))))
            e.assume(z3.Or(h.e[st.sp] > st.U, st.m > 0))
        else:
            e.assume(z3.And(h.s[st.sp] <= st.D, st.D < h.e[st.sp], z3.Implies(st.m > 0, z3.And(last == st.sp - 1, h.e[last] < h.s[st.sp]))))
            e.assume(z3.Or(h.s[st.sp] < st.D, st.m > 0))
        st.G = PStr.sym(e, 'gene_seq', st.gn.end - st.gn.start)
        st.gn.obj.fields['gene_name'] = 'SYMBOL'
        st.gn.obj.fields['strand'] = st.gn.strand
        st.anno = SymObj('GenomicAnnotation', genes={'G': st.gn.obj}, transcripts={}, source='GENCODE', gene_id_version_mapper=None, version=None, _cached_tx_seqs=[])
        junction = SymObj('SpliceJunction', upstream_start=None, upstream_end=st.U, downstream_start=st.D, downstream_end=None, gene_id='G', chrom='chr1')
        st.aln = SymObj('SpliceJunctionTranscriptAlignment', junction=junction, tx_model=h.obj, upstream_start_index=-1, upstream_end_index=-1,
                        downstream_start_index=-1, downstream_end_index=-1, upstream_novel=True, downstream_novel=True)
        st.args = [st.aln, st.sp, _Interjacent(st.first, st.m), st.anno, SymObj('GeneSeq16', seq=st.G), SymObj('VarId16')]
        self._cur = st
        return st

    @property
    def models(self):
        c = self

        def inst(reg):
            install_exon_identity(reg)
            reg.ctor_('VariantRecord', lambda I, a, k: SymObj('VariantRecord', **dict(zip(['location', 'ref', 'alt', 'type', 'id', 'attrs'], a))))
        return (inst,)

    def post_return(self, I, st, ret):
        e, h, gn = I.e, st.h, st.gn
        # R = what the junction skips on this side
        lo, hi = deletion_hull(self.side, h, st.U, st.D, st.sp, st.first, st.m)      # first skipped genomic base, one past the last
        a = z3.If(gn.strand == 1, lo - gn.start, gn.end - hi)
        b = z3.If(gn.strand == 1, hi - gn.start, gn.end - lo)
        loc, at = ret.fields['location'], ret.fields['attrs']
        e.prove(f'C16/{self.side}-deletion/interval=gene-image-of-the-hull-of-the-skipped-bases',
                z3.And(loc.fields['start'] == a, loc.fields['end'] == b, at.get('START') == a, at.get('END') == b, lo < hi))
        e.prove(f'C16/{self.side}-deletion/record-on-the-gene-for-this-transcript',
                loc.fields['seqname'] == 'G' and ret.fields['type'] == 'Deletion' and ret.fields['alt'] == '<DEL>' and at.get('TRANSCRIPT_ID') == 'ENST_T')
        ref = ret.fields['ref']
        e.prove(f'C16/{self.side}-deletion/ref=first-deleted-gene-base', ref.get(0) == st.G.get(a) if isinstance(ref, PStr) else False)


for _side in ('upstream', 'downstream'):
    register(type(f'JunctionDeletion_{_side}', (_JunctionDeletion,), dict(side=_side)))


class _JunctionInsSub(Contract):
    """insertion: the novel exon of the junction (clipped at the neighbouring exon) is inserted next to that neighbour, at the exon base on its
    5-prime side in transcript direction; substitution: the hull of the interjacent exons is replaced by the novel exon (clipped at the
    neighbouring exon when there is one). All intervals are the gene-coordinate images of the genomic intervals, on both strands"""
    props = ('C16',)
    kind = 'upstream_insertion'
    declared_raises = ['ValueError']
    models = (install_exon_identity,)
    assumptions = ('requires (proved at every call site by AlignmentConvert, given the contract of align_to_transcript): the junction carries all four coordinates; the aligned exon indices are positions of exons with that '
                   'boundary; interjacent exons are consecutive (contract of get_interjacent_exons); only the quantifier-free order facts of the '
                   'exons involved are assumed', 'summary: coordinate_genomic_to_gene is its proved contract (C11)')

    @property
    def path(self):
        return SJ

    @property
    def qualname(self):
        return f'SpliceJunctionTranscriptAlignment.create_{self.kind}'

    def setup(self, I):
        e = I.e
        st = types.SimpleNamespace()
        st.gn = mk_gene_tagged(I, gene_id='G')
        st.h = mk_tx_tagged(I, gene_id='G')
        h = st.h
        st.US, st.U, st.D, st.DE = e.int('junction_upstream_start'), e.int('junction_upstream_end'), e.int('junction_downstream_start'), e.int('junction_downstream_end')
        st.ue, st.ds, st.usi = e.int('upstream_end_index'), e.int('downstream_start_index'), e.int('upstream_start_index')
        st.first, st.m = e.int('first_interjacent'), e.int('n_interjacent')
        last = st.first + st.m - 1
        e.assume(z3.And(st.gn.start < st.gn.end, h.n >= 1, st.US < st.U, st.U < st.D, st.D < st.DE))
        pos = lambda i: z3.And(0 <= i, i < h.n, h.s[i] < h.e[i], h.s[i] >= 0)
        e.assume(z3.Or(st.ue == -1, z3.And(pos(st.ue), h.e[st.ue] == st.U)))
        e.assume(z3.Or(st.ds == -1, z3.And(pos(st.ds), h.s[st.ds] == st.D)))
        e.assume(z3.And(-1 <= st.usi, st.usi < h.n))
        if 'insertion' in self.kind:
            # neighbours of the aligned exon (when they exist) are ordered around it
            e.assume(z3.Implies(st.ds > 0, z3.And(pos(st.ds - 1), h.e[st.ds - 1] < h.s[st.ds])))
            e.assume(z3.Implies(z3.And(st.ue >= 0, st.ue + 1 < h.n), z3.And(pos(st.ue + 1), h.e[st.ue] < h.s[st.ue + 1])))
            if self.kind == 'downstream_insertion':
                # call site: an exon ending at the junction's downstream end exists and is not the last one; it lies after the exon
                # that ends at the upstream end, so that exon has a successor (the function itself tests upstream_start_index instead)
                e.assume(z3.Implies(st.ue >= 0, st.ue + 1 < h.n))
            args = []
        else:
            e.assume(z3.And(st.m >= 1, pos(st.first), pos(last), z3.Implies(st.m >= 2, h.e[st.first] < h.s[last]), st.U <= h.s[st.first], h.e[last] <= st.D))
            e.assume(z3.Implies(st.first > 0, z3.And(pos(st.first - 1), h.e[st.first - 1] < h.s[st.first])))
            e.assume(z3.Implies(last + 1 < h.n, z3.And(pos(last + 1), h.e[last] < h.s[last + 1])))
            args = [_Interjacent(st.first, st.m)]
        st.G = PStr.sym(e, 'gene_seq', st.gn.end - st.gn.start)
        st.gn.obj.fields['gene_name'] = 'SYMBOL'
        st.gn.obj.fields['strand'] = st.gn.strand
        st.anno = SymObj('GenomicAnnotation', genes={'G': st.gn.obj}, transcripts={}, source='GENCODE', gene_id_version_mapper=None, version=None, _cached_tx_seqs=[])
        junction = SymObj('SpliceJunction', upstream_start=st.US, upstream_end=st.U, downstream_start=st.D, downstream_end=st.DE, gene_id='G', chrom='chr1')
        st.aln = SymObj('SpliceJunctionTranscriptAlignment', junction=junction, tx_model=h.obj, upstream_start_index=st.usi, upstream_end_index=st.ue,
                        downstream_start_index=st.ds, downstream_end_index=-1, upstream_novel=True, downstream_novel=True)
        st.args = [st.aln] + args + [st.anno, SymObj('GeneSeq16', seq=st.G), SymObj('VarId16')]
        self._cur = st
        return st

    @property
    def models(self):
        def inst(reg):
            install_exon_identity(reg)
            reg.ctor_('VariantRecord', lambda I, a, k: SymObj('VariantRecord', **dict(zip(['location', 'ref', 'alt', 'type', 'id', 'attrs'], a))))
        return (inst,)

    def image(self, lo, hi):
        gn = self._cur.gn
        return z3.If(gn.strand == 1, lo - gn.start, gn.end - hi), z3.If(gn.strand == 1, hi - gn.start, gn.end - lo)

    def post_return(self, I, st, ret):
        e, h, gn = I.e, st.h, st.gn
        mx = lambda a, b: z3.If(a >= b, a, b)
        mn = lambda a, b: z3.If(a <= b, a, b)
        last = st.first + st.m - 1
        loc, at = ret.fields['location'], ret.fields['attrs']
        k = self.kind
        dlo, dhi = donor_range(k, h, st.US, st.U, st.D, st.DE, st.ue, st.ds, st.first, st.m)
        if 'insertion' in k:
            anchor = insertion_anchor(k, h, gn.strand, st.U, st.D, st.ue, st.ds)
        da, db = self.image(dlo, dhi)
        e.prove(f'C16/{k}/donor=gene-image-of-the-novel-exon-clipped-at-its-neighbour', z3.And(at.get('DONOR_START') == da, at.get('DONOR_END') == db, at.get('DONOR_GENE_ID') == 'G'))
        if 'insertion' in k:
            p_ = g2gene_val(gn, anchor)
            e.prove(f'C16/{k}/inserted-next-to-the-neighbouring-exon-on-its-5-prime-side-in-transcript-direction',
                    z3.And(loc.fields['start'] == p_, loc.fields['end'] == p_ + 1, ret.fields['type'] == 'Insertion'))
            first_base = p_
        else:
            ra, rb = self.image(h.s[st.first], h.e[last])
            e.prove(f'C16/{k}/replaced=gene-image-of-the-hull-of-the-interjacent-exons',
                    z3.And(loc.fields['start'] == ra, loc.fields['end'] == rb, at.get('START') == ra, at.get('END') == rb, ret.fields['type'] == 'Substitution'))
            first_base = ra
        e.prove(f'C16/{k}/record-on-the-gene-for-this-transcript', loc.fields['seqname'] == 'G' and at.get('TRANSCRIPT_ID') == 'ENST_T')
        ref = ret.fields['ref']
        e.prove(f'C16/{k}/ref=gene-base-at-the-record-start', ref.get(0) == st.G.get(first_base) if isinstance(ref, PStr) else False)

    def post_raise(self, I, st, exc):
        # besides positions outside the gene (coordinate_genomic_to_gene), the constructors refuse an alignment without the neighbour they need
        pass


for _kind in ('upstream_insertion', 'downstream_insertion', 'upstream_substitution', 'downstream_substitution'):
    register(type(f'Junction_{_kind}', (_JunctionInsSub,), dict(kind=_kind)))


@register
class AlignmentConvert(Contract):
    """the dispatcher from an alignment to record constructors, verified against the contracts of what it calls: the lookups
    (get_interjacent_exons, the two spanning lookups) are used through their postconditions, and at every call of a create_* constructor the
    preconditions that constructor's contract assumes "at the call site" are proved here - a spanning exon that really contains the base next to
    the junction, interjacent exons that are the consecutive run next to it, something to delete, an anchoring neighbour for an insertion, a
    non-empty run for a substitution. Every constructor gets the annotation, gene sequence and variant id of this call and the lookup results
    of this alignment; the records returned are exactly the records constructed, in order; nothing is constructed on a side whose junction end
    already coincides with an exon boundary of the transcript with no exon in between. On top of these contracts the statement of C16 itself
    is proved for one junction and one transcript (see denotation): each record emitted denotes the alternative form"""
    path, qualname, props = SJ, 'SpliceJunctionTranscriptAlignment.convert_to_variant_records', ('C16',)
    declared_raises = ['ValueError']
    cover_any = True        # the "junction with coinciding exons reaches this record" covers: each record kind on some path, not on every path
    assumptions = ('requires (contract of align_to_transcript): each index is -1 or the position of the exon with that boundary; the side opposite to a '
                   'novel side is matched; exons sorted, non-empty, disjoint, non-adjacent; the callees are their proved contracts (postconditions assumed here)',)

    def setup(self, I):
        e = I.e
        st = types.SimpleNamespace(made=[], calls=[])
        st.h = h = mk_tx_tagged(I, gene_id='G')
        # "exons sorted, non-empty, disjoint, non-adjacent" and "index -1 means no exon has that boundary" are assumed as their ground instances
        # at the exon positions the function can talk about (no quantifiers), so that a wrong call is refuted with a model
        st.terms, st.none_at = [], []
        e.assume(z3.And(h.n >= 1, z3.Or(h.strand == 1, h.strand == -1)))
        st.US, st.U, st.D, st.DE = e.int('junction_upstream_start'), e.int('junction_upstream_end'), e.int('junction_downstream_start'), e.int('junction_downstream_end')
        st.usi, st.ue, st.ds, st.dei = e.int('upstream_start_index'), e.int('upstream_end_index'), e.int('downstream_start_index'), e.int('downstream_end_index')
        st.un, st.dn = e.bool('upstream_novel'), e.bool('downstream_novel')
        e.assume(z3.And(st.US < st.U, st.U < st.D, st.D < st.DE))
        for r, arr, x in ((st.usi, h.s, st.US), (st.ue, h.e, st.U), (st.ds, h.s, st.D), (st.dei, h.e, st.DE)):
            e.assume(z3.Or(r == -1, z3.And(0 <= r, r < h.n, arr[r] == x)))
            st.none_at.append(lambda t, r=r, arr=arr, x=x: z3.Implies(r == -1, arr[t] != x))
        e.assume(z3.And(z3.Implies(st.un, st.ds != -1), z3.Implies(st.dn, st.ue != -1)))
        self._cur = st
        for t in (st.usi, st.ue, st.ds, st.dei, st.ue + 1, st.ds - 1, z3.IntVal(0), h.n - 1):
            self.add_term(I, t)
        st.junction = SymObj('SpliceJunction', upstream_start=st.US, upstream_end=st.U, downstream_start=st.D, downstream_end=st.DE, gene_id='G', chrom='chr1')
        st.aln = SymObj('SpliceJunctionTranscriptAlignment', junction=st.junction, tx_model=h.obj, upstream_start_index=st.usi, upstream_end_index=st.ue,
                        downstream_start_index=st.ds, downstream_end_index=st.dei, upstream_novel=st.un, downstream_novel=st.dn)
        st.anno, st.gene_seq, st.var_id = SymObj('Anno16d'), SymObj('GeneSeq16'), SymObj('VarId16')
        st.args = [st.aln, st.anno, st.gene_seq, st.var_id]
        self._cur = st
        return st

    def add_term(self, I, t):
        st, h = self._cur, self._cur.h
        inr = lambda q: z3.And(0 <= q, q < h.n)
        facts = [z3.Implies(inr(t), z3.And(h.s[t] < h.e[t], h.s[t] >= 0))]
        for u in st.terms:
            facts.append(z3.Implies(z3.And(inr(t), inr(u), t < u), h.e[t] < h.s[u]))
            facts.append(z3.Implies(z3.And(inr(t), inr(u), u < t), h.e[u] < h.s[t]))
        for f in st.none_at:
            facts.append(z3.Implies(inr(t), f(t)))
        st.terms.append(t)
        I.e.assume(z3.And(*facts))

    def add_none_at(self, I, f):
        st, h = self._cur, self._cur.h
        st.none_at.append(f)
        I.e.assume(z3.And(*[z3.Implies(z3.And(0 <= t, t < h.n), f(t)) for t in st.terms]))

    @property
    def models(self):
        c = self
        A = 'SpliceJunctionTranscriptAlignment'

        def inst(reg):
            install_exon_identity(reg)

            def interjacent(I, o, a, k):
                st, h, e = c._cur, c._cur.h, I.e
                e.prove('C16/convert/lookups-on-this-alignment', o is st.aln)
                first, m = e.int('first_interjacent'), e.int('n_interjacent')
                last = first + m - 1
                fwd = st.ue > -1
                # postcondition of get_interjacent_exons (its own contract): consecutive exons inside the gap, next to the aligned exon, maximal
                e.assume(z3.And(m >= 0, first == z3.If(fwd, st.ue + 1, st.ds - m),
                                z3.Implies(m > 0, z3.And(0 <= first, last < h.n, st.U <= h.s[first], h.e[last] <= st.D)),
                                z3.Implies(z3.And(st.ue == -1, st.ds == -1), m == 0)))
                nxt = z3.If(fwd, st.ue + 1 + m, st.ds - 1 - m)
                e.assume(z3.Or(nxt < 0, nxt >= h.n, z3.Not(z3.And(st.U <= h.s[nxt], h.e[nxt] <= st.D))))
                for t in (first, last, nxt, first - 1, last + 1):
                    c.add_term(I, t)
                st.inter = _Interjacent(first, m)
                return st.inter
            reg.method_(A, 'get_interjacent_exons', interjacent)

            def spanning(side):
                def f(I, o, a, k):
                    st, h, e = c._cur, c._cur.h, I.e
                    e.prove('C16/convert/lookups-on-this-alignment', o is st.aln)
                    sp = e.int(f'{side}_spanning')
                    x = st.U - 1 if side == 'upstream' else st.D
                    cand = (lambda q: z3.And(0 <= q, q < h.n, z3.Or(st.ds == -1, q < st.ds))) if side == 'upstream' else \
                           (lambda q: z3.And(0 <= q, q < h.n, z3.Or(st.ue == -1, q > st.ue)))
                    e.assume(z3.Or(sp == -1, z3.And(cand(sp), h.s[sp] <= x, x < h.e[sp])))
                    c.add_term(I, sp)
                    c.add_none_at(I, lambda t: z3.Implies(z3.And(sp == -1, cand(t)), z3.Not(z3.And(h.s[t] <= x, x < h.e[t]))))
                    setattr(st, f'sp_{side}', sp)
                    return sp
                return f
            reg.method_(A, 'get_upstream_end_spanning', spanning('upstream'))
            reg.method_(A, 'get_downstream_start_spanning', spanning('downstream'))

            def create(kind):
                def f(I, o, a, k):
                    st, h, e = c._cur, c._cur.h, I.e
                    side, what = kind.split('_')
                    a = list(a)
                    tail = a[-3:]
                    e.prove(f'C16/convert/{kind}/gets-the-annotation-gene-sequence-and-id-of-this-call',
                            o is st.aln and len(tail) == 3 and tail[0] is st.anno and tail[1] is st.gene_seq and tail[2] is st.var_id and not k)
                    inter = getattr(st, 'inter', None)
                    first, m = (inter.first, inter.m) if inter is not None else (z3.IntVal(0), z3.IntVal(0))
                    last = first + m - 1
                    if what == 'deletion':
                        sp = a[0]
                        e.prove(f'C16/convert/{kind}/requires/spanning-and-interjacent-are-the-lookup-results-of-this-alignment',
                                len(a) == 5 and a[1] is inter and sp is getattr(st, f'sp_{side}', None))
                        if side == 'upstream':
                            pre = z3.And(0 <= sp, sp < h.n, h.s[sp] <= st.U - 1, st.U - 1 < h.e[sp], z3.Implies(m > 0, first == sp + 1), z3.Or(h.e[sp] > st.U, m > 0))
                        else:
                            pre = z3.And(0 <= sp, sp < h.n, h.s[sp] <= st.D, st.D < h.e[sp], z3.Implies(m > 0, last == sp - 1), z3.Or(h.s[sp] < st.D, m > 0))
                        e.prove(f'C16/convert/{kind}/requires/spanning-exon-contains-the-base-next-to-the-junction-interjacent-run-adjacent-something-to-delete', pre)
                    elif what == 'substitution':
                        e.prove(f'C16/convert/{kind}/requires/interjacent-is-the-lookup-result-and-not-empty', z3.And(m >= 1) if len(a) == 4 and a[0] is inter else False)
                    else:
                        if side == 'upstream':
                            e.prove(f'C16/convert/{kind}/requires/an-exon-precedes-the-downstream-exon-and-nothing-lies-between', z3.And(st.ds > 0, m == 0))
                        else:
                            e.prove(f'C16/convert/{kind}/requires/an-exon-follows-the-upstream-exon-and-nothing-lies-between',
                                    z3.And(z3.Implies(st.ue >= 0, st.ue + 1 < h.n), m == 0, st.dei > -1, st.dei < h.n - 1))
                    # a record is only built on a side whose junction end is not already an exon boundary with nothing in between
                    done = z3.And(st.ue != -1, m == 0) if side == 'upstream' else z3.And(st.ds != -1, m == 0)
                    e.prove(f'C16/convert/{kind}/nothing-is-built-where-the-transcript-already-has-this-junction-end', z3.Not(done))
                    r = SymObj('VariantRecord', kind=kind, n=len(st.made), sp=a[0] if what == 'deletion' else None, first=first, m=m)
                    st.made.append(r)
                    return r
                return f
            for kind in ('upstream_deletion', 'downstream_deletion', 'upstream_substitution', 'downstream_substitution', 'upstream_insertion', 'downstream_insertion'):
                reg.method_(A, f'create_{kind}', create(kind))
        return (inst,)

    def post_return(self, I, st, ret):
        e = I.e
        e.prove('C16/convert/returns-exactly-the-records-constructed-in-order', isinstance(ret, list) and len(ret) == len(st.made) and all(x is y for x, y in zip(ret, st.made)))
        self.denotation(I, st)

    # ---- what the emitted record denotes (the statement of C16 at the level of one junction and one transcript)
    def denotation(self, I, st):
        """For a junction whose exons coincide with exons of the transcript (the quantifier of C16), the record emitted - read with the documented
        deletion / insertion / substitution semantics through the postconditions of the constructor contracts - turns the set of exonic
        genomic positions of the transcript into exactly that of the alternative form: the junction's novel exon present in full, nothing
        exonic left between the junction ends, everything else unchanged; an insertion / substitution puts the donor where it belongs in
        transcript order. All of it quantifier-free at an arbitrary position x (w: the exon containing x, if any)."""
        for r in st.made:       # each record is read on its own, as the property states it
            self.denotation_of(I, st, r)

    def denotation_of(self, I, st, r):
        e, h = I.e, st.h
        kind, sp, first, m = (r.fields[k] for k in ('kind', 'sp', 'first', 'm'))
        side, what = kind.split('_')
        last = first + m - 1
        inx = lambda t, q: z3.And(0 <= t, t < h.n, h.s[t] <= q, q < h.e[t])
        inr = lambda t: z3.And(0 <= t, t < h.n)

        def position(name):
            q, wq = e.int(name), e.int(name + '_exon')
            self.add_term(I, wq)
            e.assume(z3.And(*[z3.Implies(inx(t, q), inx(wq, q)) for t in st.terms]))
            return q, inx(wq, q)
        x, InP = position('x_pos')
        y, InPy = position('y_pos')

        def noexon(lo, hi):
            # ground instances of "no exonic base in [lo, hi)": at x, y and at the first / last base of every exon the function can talk about
            inst = [z3.Implies(z3.And(lo <= x, x < hi), z3.Not(InP)), z3.Implies(z3.And(lo <= y, y < hi), z3.Not(InPy))]
            for t in st.terms:
                inst.append(z3.Implies(inr(t), z3.And(z3.Not(z3.And(lo <= h.s[t], h.s[t] < hi)), z3.Not(z3.And(lo <= h.e[t] - 1, h.e[t] - 1 < hi)))))
            return z3.And(*inst)
        US, U, D, DE = st.US, st.U, st.D, st.DE
        pre1 = z3.Or(z3.And(st.usi == -1, noexon(US, U)), z3.And(st.usi != -1, z3.Or(U <= h.e[st.usi], noexon(h.e[st.usi], U))))
        pre2 = z3.Or(z3.And(st.dei == -1, noexon(D, DE)), z3.And(st.dei != -1, z3.Or(h.s[st.dei] <= D, noexon(D, h.s[st.dei]))))
        t1 = z3.If(x < US, InP, z3.If(x < U, True, z3.If(x < D, False, InP)))
        t2 = z3.If(x < U, InP, z3.If(x < D, False, z3.If(x < DE, True, InP)))
        t3 = z3.And(InP, z3.Not(z3.And(U <= x, x < D)))
        situation = z3.Or(z3.And(st.un, z3.Not(st.dn), pre1), z3.And(st.dn, z3.Not(st.un), pre2), z3.And(z3.Not(st.un), z3.Not(st.dn), st.ue != -1, st.ds != -1))
        target = z3.If(st.un, t1, z3.If(st.dn, t2, t3))
        between = lambda lo, q, hi: z3.And(lo <= q, q < hi)
        if what == 'deletion':
            lo, hi = deletion_hull(side, h, U, D, sp, first, m)
            after = z3.And(InP, z3.Not(between(lo, x, hi)))
            order = z3.BoolVal(True)
        else:
            dlo, dhi = donor_range(kind, h, US, U, D, DE, st.ue, st.ds, first, m)
            if what == 'insertion':
                anchor = insertion_anchor(kind, h, h.strand, U, D, st.ue, st.ds)
                after = z3.Or(InP, between(dlo, x, dhi))
                order = z3.And(dlo < dhi, z3.Or(*[inx(t, anchor) for t in st.terms]),
                               z3.If(h.strand == 1, z3.And(anchor < dlo, z3.Implies(z3.And(anchor < y, y < dhi), z3.Not(InPy))),
                                     z3.And(anchor >= dhi, z3.Implies(z3.And(dlo <= y, y < anchor), z3.Not(InPy)))))
            else:
                rlo, rhi = h.s[first], h.e[last]
                after = z3.Or(z3.And(InP, z3.Not(between(rlo, x, rhi))), between(dlo, x, dhi))
                order = z3.And(dlo < dhi, z3.Implies(z3.And(between(_mn(dlo, rlo), y, _mx(dhi, rhi)), z3.Not(between(rlo, y, rhi))), z3.Not(InPy)))
        e.cover(f'C16/convert/denotes/{kind}/cover/a-junction-with-coinciding-exons-reaches-this-record', situation)
        e.prove(f'C16/convert/denotes/{kind}/exonic-positions-afterwards=the-alternative-form (novel exon in full, nothing between the junction ends, the rest unchanged)',
                z3.Implies(situation, after == target))
        e.prove(f'C16/convert/denotes/{kind}/the-donor-lands-where-it-belongs-in-transcript-order', z3.Implies(situation, order))


@register
class SkippedBasesInHull(Lemma):
    """in a transcript with sorted, disjoint exons, every base of a run of consecutive exons first..last lies between the start of the
    first and the end of the last of them (so the interval of the deletion records covers every interjacent exon entirely)"""
    qualname, props = 'skipped_bases_lie_in_the_hull', ('C16',)

    def obligations(self, e):
        from .c11 import _H
        h = _H('Hull')
        first, last, j, x = z3.Ints('first last j x')
        hy = wf_exons(h) + [0 <= first, first <= j, j <= last, last < h.n, h.s[j] <= x, x < h.e[j]]
        return [('base-of-an-inner-exon-lies-in-the-hull', hy, z3.And(h.s[first] <= x, x < h.e[last]))]


# ----------------------------------------------------------------------------
# rMATS text -> record: every coordinate and count column reaches the attribute of that name unchanged
# ----------------------------------------------------------------------------
# column layout of the rMATS event tables (rMATS documentation; starts are the *_0base / ES columns, ends the EE columns)
READLINE_COLUMNS = {
    'SE': ('SERecord', ['exon_start', 'exon_end', 'upstream_exon_start', 'upstream_exon_end', 'downstream_exon_start', 'downstream_exon_end']),
    'A5SS': ('A5SSRecord', ['long_exon_start', 'long_exon_end', 'short_exon_start', 'short_exon_end', 'flanking_exon_start', 'flanking_exon_end']),
    'A3SS': ('A3SSRecord', ['long_exon_start', 'long_exon_end', 'short_exon_start', 'short_exon_end', 'flanking_exon_start', 'flanking_exon_end']),
    'MXE': ('MXERecord', ['first_exon_start', 'first_exon_end', 'second_exon_start', 'second_exon_end', 'upstream_exon_start', 'upstream_exon_end',
                          'downstream_exon_start', 'downstream_exon_end']),
    'RI': ('RIRecord', ['retained_intron_exon_start', 'retained_intron_exon_end', 'upstream_exon_start', 'upstream_exon_end', 'downstream_exon_start',
                        'downstream_exon_end']),
}


class _Col:
    """one tab-separated column of an rMATS line"""
    def __init__(self, owner, k):
        self.owner, self.k = owner, k

    def sym_int(self, I):
        return self.owner._cur.COL(self.k)

    def sym_float(self, I):
        return SymObj('FloatOf', k=self.k)

    def sym_eq(self, I, other):
        if other in ('', 'NA'):
            return self.owner._cur.EMPTY(self.k)
        raise Unsupported(f'column compared with {other!r}')

    def sym_method(self, I, name, a, k):
        if name == 'strip':
            return _ColText(self.k)
        raise Unsupported(f'column.{name}')


class _ColText:
    def __init__(self, k):
        self.k = k


class _RmatsReadline(Contract):
    """ID, GeneID, geneSymbol, chr, strand, then the coordinate columns of the event type in the order of the rMATS table, ID,
    IJC_SAMPLE_1, SJC_SAMPLE_1, IJC_SAMPLE_2, SJC_SAMPLE_2, IncFormLen, SkipFormLen, PValue, FDR: each coordinate / count attribute of the
    record is the integer in its column, unchanged (rMATS starts are 0-based, ends 1-based = half-open intervals, as the records assume)"""
    props = ('C16',)
    event = 'SE'
    assumptions = ('assumed: str.split / strip / int / float of one table line behave as in CPython; a line has all columns of its table',)

    @property
    def path(self):
        return RM + READLINE_COLUMNS[self.event][0] + '.py'

    @property
    def qualname(self):
        return READLINE_COLUMNS[self.event][0] + '.readline'

    def setup(self, I):
        from pyvc.values import ClassRef
        e = I.e
        st = types.SimpleNamespace()
        st.COL, st.EMPTY = z3.Function('column_as_int', I_, I_), z3.Function('column_is_empty_or_NA', I_, B_)
        c = self

        class Cols:
            def sym_getitem(s_, I2, idx):
                if not isinstance(idx, int) or idx < 0:
                    raise Unsupported(f'fields[{idx!r}]')
                return _Col(c, idx)

        class Line:
            def sym_method(s_, I2, name, a, k):
                if name == 'rstrip':
                    return s_
                if name == 'split' and list(a) == ['\t']:
                    return Cols()
                raise Unsupported(f'line.{name}')
        cls = READLINE_COLUMNS[self.event][0]
        st.args = [ClassRef(cls, I.repo.get_class(cls)), Line()]
        self._cur = st
        return st

    @property
    def models(self):
        return ()

    def post_return(self, I, st, ret):
        cls, coords = READLINE_COLUMNS[self.event]
        ok = isinstance(ret, SymObj) and ret.cls == cls
        I.e.prove('C16/readline/returns-a-record-of-its-own-class', ok)
        if not ok:
            return
        f = ret.fields
        for n, attr in enumerate(coords):
            I.e.prove(f'C16/readline/{attr}=column-{5 + n}-unchanged', f.get(attr) == st.COL(5 + n) if is_z3(f.get(attr)) else False)
        base = 5 + len(coords) + 1          # the second ID column follows the coordinates
        for off, attr in enumerate(['ijc_sample_1', 'sjc_sample_1']):
            I.e.prove(f'C16/readline/{attr}=column-{base + off}-unchanged', f.get(attr) == st.COL(base + off) if is_z3(f.get(attr)) else False)
        for off, attr in ((2, 'ijc_sample_2'), (3, 'sjc_sample_2')):
            v = f.get(attr)
            I.e.prove(f'C16/readline/{attr}=column-{base + off}-or-None-when-empty', (v is None) if not is_z3(v) else v == st.COL(base + off))
        for k, attr in ((1, 'gene_id'), (2, 'gene_symbol')):
            I.e.prove(f'C16/readline/{attr}=column-{k}-without-quotes', isinstance(f.get(attr), _ColText) and f[attr].k == k)
        I.e.prove('C16/readline/chrom=column-3', isinstance(f.get('chrom'), _Col) and f['chrom'].k == 3)


for _ev in READLINE_COLUMNS:
    register(type(f'RmatsReadline_{_ev}', (_RmatsReadline,), dict(event=_ev)))


# ----------------------------------------------------------------------------
# the parseRMATS command: thresholds reach the record classes under the right names; every record is kept
# ----------------------------------------------------------------------------
PRC = 'moPepGen/cli/parse_rmats.py'


@register
class RmatsCLI(Contract):
    """for every event file given and every row: convert_to_variant_records receives the annotation, the genome and --min-ijc / --min-sjc
    bound (by Python's own argument binding on the real signature of the record class) to min_ijc / min_sjc; every returned record is
    stored under its transcript; a row is counted as succeeded or skipped; a failure propagates"""
    path, qualname, props = PRC, 'parse_rmats', ('C16',)
    assumptions = ('havoc: RMATSParser.parse yields the rows of a file; convert_to_variant_records returns a collection of records or raises '
                   '(its gating is proved separately); output sorting and writing are external; one event file given at a time (the five '
                   'per-type blocks are independent)',)
    KINDS = ('SE', 'A5SS', 'A3SS', 'MXE', 'RI')
    CLASSES = dict(SE='SERecord', A5SS='A5SSRecord', A3SS='A3SSRecord', MXE='MXERecord', RI='RIRecord')

    def setup(self, I):
        e = I.e
        st = types.SimpleNamespace(calls=[], stored=[], log=[])
        st.min_ijc, st.min_sjc = e.int('min_ijc'), e.int('min_sjc')
        dests = parser_dests('moPepGen.cli.parse_rmats', 'add_subparser_parse_rmats')
        # one event file at a time (or none): the per-type blocks of the command are independent of each other
        which = e.choose(len(self.KINDS) + 1, 'which event file is given')
        files = dict(skipped_exon='SE', alternative_5_splicing='A5SS', alternative_3_splicing='A3SS', mutually_exclusive_exons='MXE', retained_intron='RI')
        known = dict(output_path=OpaqueStr(['out']), min_ijc=st.min_ijc, min_sjc=st.min_sjc, source='rMATS')
        for opt, kind in files.items():
            known[opt] = SymObj('EventFile', kind=kind) if which < len(self.KINDS) and self.KINDS[which] == kind else None
        st.args_obj = real_namespace(dests, known)
        st.anno, st.genome = SymObj('AnnoStub16c'), SymObj('GenomeStub16c')
        st.args = [st.args_obj]
        self._cur = st
        return st

    @property
    def models(self):
        c = self

        def inst(reg):
            noop = lambda I, a, k: None
            reg.func_('moPepGen/cli/common.py', 'validate_file_format', noop)
            reg.func_('moPepGen/cli/common.py', 'print_start_message', noop)
            reg.func_('moPepGen/cli/common.py', 'load_references', lambda I, a, k: (c._cur.genome, c._cur.anno, None, None))
            reg.func_('moPepGen/cli/common.py', 'generate_metadata', lambda I, a, k: SymObj('Metadata'))
            reg.strict_attr_classes = {'Namespace'}
            reg.protocol_('EventFile', '__bool__', lambda I, o: True)

            def parse(I, a, k):
                path, kind = a[0], a[1]
                I.e.prove('C16/cli/each-file-is-parsed-as-its-own-event-type', isinstance(path, SymObj) and path.fields['kind'] == kind)
                n = I.e.int('n_rows')
                I.e.assume(n >= 0)
                return FnView(n, lambda i: SymObj('EventRow', kind=kind, idx=i if is_z3(i) else z3.IntVal(i), gene_id='G'), tag='rows')
            reg.func_(RM + '__init__.py', 'parse', parse)
            reg.ext_('RMATSParser.parse', parse)

            def convert(I, o, a, k):
                st = c._cur
                from pyvc.interp import Env
                cls, fnode = I.repo.find_method(c.CLASSES[o.fields['kind']], 'convert_to_variant_records')
                env = Env({})
                I.bind_args(fnode.args, [o] + list(a), dict(k), env, 'convert_to_variant_records')
                b = env.vars
                I.e.prove('C16/cli/thresholds-and-references-reach-the-parameters-of-the-same-name',
                          b.get('min_ijc') is st.min_ijc and b.get('min_sjc') is st.min_sjc and b.get('anno') is st.anno and b.get('genome') is st.genome)
                st.calls.append(o.fields['idx'])
                if I.e.choose(2, 'convert outcome') == 1:
                    raise PyRaise(SymExc('<any>', ['failure']))
                n = I.e.int('n_records')
                I.e.assume(n >= 0)
                st.nrec = n
                return FnView(n, lambda j: SymObj('VarRec16', j=j if is_z3(j) else z3.IntVal(j), transcript_id=SymObj('TxKey16', j=j)), tag='records')
            reg.method_('EventRow', 'convert_to_variant_records', convert)

            class Variants:
                def sym_contains(s_, I2, key):
                    return I2.e.bool('transcript_already_has_records')

                def sym_setitem(s_, I2, key, v):
                    c._cur.log.append(('new', key))

                def sym_getitem(s_, I2, key):
                    class S_:
                        def sym_iter_concrete(s2, I3):
                            return []

                        def sym_method(s2, I3, name, a, k):
                            if name == 'add':
                                c._cur.stored.append((key, a[0]))
                                return None
                            raise Unsupported(name)
                    return S_()

                def sym_truth(s_, I2):
                    return I2.e.bool('any_record')

                def sym_method(s_, I2, name, a, k):
                    if name == 'keys':
                        return FnView(I2.e.int('n_keys'), lambda i: SymObj('TxKey16', j=i), tag='keys')
                    raise Unsupported(name)
            c.Variants = Variants
            reg.method_('AnnoStub16c', 'get_transcript_rank', lambda I, o, a, k: SymObj('Rank'))
            reg.method_('Sorted16', 'extend', lambda I, o, a, k: None)
            reg.sorted_hooks.append(lambda I, items, kw: items if isinstance(items, FnView) else None)
            reg.func_('moPepGen/seqvar/io.py', 'write', lambda I, a, k: None)
            reg.ext_('seqvar.io.write', lambda I, a, k: None)
        return (inst,)

    def havoc(self, I, env, k):
        e = I.e
        t = env['tally']
        for n in ('total', 'succeed', 'skipped'):
            t.fields[n] = e.int(f't_{n}')
        env['variants'] = self.Variants()

    def inv(self, I, env, k):
        t = env['tally']
        return [('rows-read=succeeded+skipped', z3.And(t.fields['total'] == t.fields['succeed'] + t.fields['skipped'], t.fields['succeed'] >= 0, t.fields['skipped'] >= 0))]

    def head_rows(self, I, env, k):
        self._cur.pre = dict(nc=len(self._cur.calls))

    def step_rows(self, I, env, k):
        st = self._cur
        new = st.calls[st.pre['nc']:]
        return [('each-row-converted-once', len(new) == 1 and z3.is_true(z3.simplify(new[0] == k)))]

    def head_recs(self, I, env, k):
        self._cur.ns = len(self._cur.stored)

    def step_recs(self, I, env, k):
        st = self._cur
        new = st.stored[st.ns:]
        ok = len(new) == 1 and z3.is_true(z3.simplify(new[0][1].fields['j'] == k)) and new[0][0] is new[0][1].fields['transcript_id']
        return [('every-returned-record-stored-under-its-transcript', ok)]

    @property
    def loops(self):
        T = lambda I, env, k: []
        # 0: input-file validation, 1: event types (concrete list), 2: rows, 3: records of a row, 4: output keys
        return {0: LoopSpec(inv=T), 2: LoopSpec(inv=self.inv, havoc=self.havoc, on_head=self.head_rows, step=self.step_rows),
                3: LoopSpec(inv=T, on_head=self.head_recs, step=self.step_recs),
                4: LoopSpec(inv=T, havoc=lambda I, env, k: env.__setitem__('variants_sorted', SymObj('Sorted16')))}

    def post_raise(self, I, st, exc):
        I.e.prove('C16/cli/raise/only-a-failure-of-a-row-conversion-propagates', exc.cls == '<any>')
        if exc.cls == 'AttributeError':
            I.e.prove(f'C16/cli/every-option-read-is-defined-by-the-parser:{exc.msg}', False)


# ----------------------------------------------------------------------------
# Native side: small-scope isoform reconstruction through the real parser classes
# ----------------------------------------------------------------------------
from pyvc.native import NativeCheck
from . import realobj


def apply_record(tx_pos, v):
    """documented GVF semantics of alternative-splicing records on an isoform = ordered list of gene positions"""
    s = int(v.location.start)
    P = list(tx_pos)
    if v.type == 'Deletion':
        S, E = int(v.attrs['START']), int(v.attrs['END'])
        if S not in P or (E - 1) not in P:
            return ('end point not exonic', S, E)
        return [p for p in P if not S <= p < E]
    if v.type in ('Insertion', 'Substitution') and int(v.attrs['DONOR_START']) >= int(v.attrs['DONOR_END']):
        return ('empty or inverted donor range', int(v.attrs['DONOR_START']), int(v.attrs['DONOR_END']))
    if v.type == 'Insertion':
        if s not in P:
            return ('anchor not exonic', s)
        i = P.index(s)
        return P[:i + 1] + list(range(int(v.attrs['DONOR_START']), int(v.attrs['DONOR_END']))) + P[i + 1:]
    if v.type == 'Substitution':
        S, E = int(v.attrs['START']), int(v.attrs['END'])
        if S not in P or (E - 1) not in P:
            return ('end point not exonic', S, E)
        i, j = P.index(S), P.index(E - 1)
        return P[:i] + list(range(int(v.attrs['DONOR_START']), int(v.attrs['DONOR_END']))) + P[j + 1:]
    return ('unknown type', v.type)


def make_event(rng, kind, strand):
    """(base exon list, form A exons, form B exons, record constructor arguments)"""
    while True:
        k = rng.randint(4, 6)
        pts = sorted(rng.sample(range(12, 118), 2 * k))
        ex = [(pts[2 * i], pts[2 * i + 1]) for i in range(k)]
        if all(ex[i][1] + 3 < ex[i + 1][0] for i in range(k - 1)) and all(b - a >= 4 for a, b in ex):
            break
    m = rng.randint(1, k - 3)
    if kind == 'SE':
        m = rng.randint(1, k - 2)
        U, E, D = ex[m - 1], ex[m], ex[m + 1]
        return ex, ex[:m] + ex[m + 1:], dict(exon_start=E[0], exon_end=E[1], upstream_exon_start=U[0], upstream_exon_end=U[1],
                                             downstream_exon_start=D[0], downstream_exon_end=D[1])
    if kind == 'MXE':
        U, E1, E2, D = ex[m - 1], ex[m], ex[m + 1], ex[m + 2]
        a = ex[:m + 1] + ex[m + 2:]
        b = ex[:m] + ex[m + 1:]
        return a, b, dict(first_exon_start=E1[0], first_exon_end=E1[1], second_exon_start=E2[0], second_exon_end=E2[1],
                          upstream_exon_start=U[0], upstream_exon_end=U[1], downstream_exon_start=D[0], downstream_exon_end=D[1])
    if kind == 'RI':
        m = rng.randint(0, k - 2)
        U, D = ex[m], ex[m + 1]
        retained = ex[:m] + [(U[0], D[1])] + ex[m + 2:]
        return retained, ex, dict(retained_intron_exon_start=U[0], retained_intron_exon_end=D[1], upstream_exon_start=U[0], upstream_exon_end=U[1],
                                  downstream_exon_start=D[0], downstream_exon_end=D[1])
    # alternative splice sites: the exon end varies when the site is the donor (+: A5SS, -: A3SS), else the start
    end_varies = (kind == 'A5SS') == (strand == 1)
    m = rng.randint(0, k - 2) if end_varies else rng.randint(1, k - 1)      # the event exon may be the first / last exon
    E = ex[m]
    cut = rng.randint(1, E[1] - E[0] - 2)
    if end_varies:
        long_, short_, F = E, (E[0], E[1] - cut), ex[m + 1]
    else:
        long_, short_, F = E, (E[0] + cut, E[1]), ex[m - 1]
    a = ex
    b = ex[:m] + [short_] + ex[m + 1:]
    return a, b, dict(long_exon_start=long_[0], long_exon_end=long_[1], short_exon_start=short_[0], short_exon_end=short_[1],
                      flanking_exon_start=F[0], flanking_exon_end=F[1])


class NativeRmats(NativeCheck):
    name = 'rmats_isoform'
    props = ('C16',)
    functions = (f'{SJ}:SpliceJunctionTranscriptAlignment.convert_to_variant_records',)
    bounded_for = ('each record emitted for a transcript, applied under the documented insertion/deletion/substitution semantics, gives the '
                   'transcript with the alternative form of the event; nothing is emitted when both forms are annotated or read support is below '
                   'the thresholds')
    bound = ('small scope: gene of 4-6 exons on a 120-nt chromosome, both strands, event types SE / A5SS / A3SS / MXE / RI at a random '
             'position, annotation holding form A only, form B only, or both; thresholds at / above the read counts; quick 300 events, '
             'thorough 6000')
    quick_budget_s = 30
    thorough_budget_s = 300

    def cases(self, rng, tier):
        kinds = ('SE', 'A5SS', 'A3SS', 'MXE', 'RI')
        for i in range(300 if tier != 'thorough' else 6000):
            yield dict(seed=rng.randrange(10 ** 9), kind=kinds[i % 5], strand=rng.choice([1, -1]), which=rng.choice(['A', 'B', 'both']),
                       starve=rng.choice([None, None, 'ijc', 'sjc']))

    def from_model(self, model):
        return dict(seed=1, kind='SE', strand=1, which='A', starve=None)

    def check(self, inp):
        import random
        from moPepGen.parser.RMATSParser import SERecord, A5SSRecord, A3SSRecord, MXERecord, RIRecord
        rng = random.Random(inp['seed'])
        kind, strand = inp['kind'], inp['strand']
        A, B, fields = make_event(rng, kind, strand)
        if kind == 'RI' and inp['which'] == 'both' and rng.random() < 0.6:
            # the annotated isoform that retains the intron need not start / end where the flanking exons do
            u0, u1, d0, d1 = fields['upstream_exon_start'], fields['upstream_exon_end'], fields['downstream_exon_start'], fields['downstream_exon_end']
            A = [((a + rng.randint(0, max(0, u1 - u0 - 2)), b - rng.randint(0, max(0, d1 - d0 - 3))) if (a, b) == (u0, d1) else (a, b)) for a, b in A]
        txs = {'A': [('TA', A)], 'B': [('TB', B)], 'both': [('TA', A), ('TB', B)]}[inp['which']]
        gs, ge = 10, 120
        anno = realobj.anno_from([dict(id='G', start=gs, end=ge, strand=strand, transcripts=[t for t, _ in txs])],
                                 [dict(id=t, gene='G', strand=strand, exons=e) for t, e in txs])
        chrom = ''.join(rng.choice('ACGT') for _ in range(130))
        genome = realobj.genome_from({'chr1': chrom})
        cls = dict(SE=SERecord, A5SS=A5SSRecord, A3SS=A3SSRecord, MXE=MXERecord, RI=RIRecord)[kind]
        cls = getattr(cls, cls.__name__.split('.')[-1], cls) if not isinstance(cls, type) else cls
        ijc = 0 if inp['starve'] == 'ijc' else 10
        sjc = 0 if inp['starve'] == 'sjc' else 10
        rec = cls(gene_id='G', gene_symbol='S', chrom='chr1', ijc_sample_1=ijc, sjc_sample_1=sjc, ijc_sample_2=None, sjc_sample_2=None,
                  inc_form_len=1, skip_form_len=1, pvalue=None, fdr=None, **fields)
        call = f"{kind} strand {strand} annotation {inp['which']} starve {inp['starve']} exons A={A} B={B}"
        try:
            vs = rec.convert_to_variant_records(anno, genome, 1, 1)
        except Exception as ex:
            return dict(call=call, observed=f'{type(ex).__name__}: {ex}', expected='records', signature='convert-raises')

        def gpos(exons):
            g = [p for a, b in exons for p in range(a, b)]
            return [p - gs if strand == 1 else ge - 1 - p for p in (g if strand == 1 else g[::-1])]
        forms = {'TA': (gpos(A), gpos(B)), 'TB': (gpos(B), gpos(A))}
        if inp['which'] == 'both':
            if vs:
                return dict(call=call, observed=f'{len(vs)} records', expected='none: both forms are annotated', signature='emitted-for-annotated-form')
            return None
        t = txs[0][0]
        cur, alt = forms[t]
        # form A is the inclusion form (supported by ijc), form B the skipping form (supported by sjc): a record turning the annotated
        # form into the other one needs the read support of that other form
        needed = 'sjc' if t == 'TA' else 'ijc'
        if inp['starve'] == needed and vs:
            return dict(call=call, observed=f'{len(vs)} records', expected=f'none: {needed} is below the threshold', signature='emitted-below-threshold')
        for v in vs:
            if v.attrs['TRANSCRIPT_ID'] != t:
                return dict(call=call, observed=v.attrs['TRANSCRIPT_ID'], expected=t, signature='foreign-transcript')
            got = apply_record(cur, v)
            if got != alt:
                return dict(call=call + f' record {v.type} [{int(v.location.start)},{int(v.location.end)}) ' +
                            str({k_: v.attrs[k_] for k_ in v.attrs if k_ in ('START', 'END', 'DONOR_START', 'DONOR_END')}),
                            observed=str(got)[:200] if isinstance(got, tuple) else 'a different isoform', expected='the alternative form',
                            signature='record-does-not-give-the-alternative-form')
        return None

    def nontrivial(self, inp):
        return (inp['seed'],)


class NativeRmatsCLI(NativeCheck):
    name = 'rmats_cli_thresholds'
    props = ('C16',)
    functions = (f'{PRC}:parse_rmats',)
    bounded_for = ''
    bound = ('the real parseRMATS command on the demo rMATS tables (SE, A5SS, A3SS, MXE, RI) and annotation under threshold pairs '
             '(min_ijc, min_sjc) in {1, 4, 1000}^2: the written records equal those the record classes return for the same thresholds')
    quick_budget_s = 60
    thorough_budget_s = 200

    def cases(self, rng, tier):
        for a in (1, 4, 1000):
            for b in (1, 4, 1000):
                if tier == 'thorough' or a != b or a == 1:
                    yield dict(min_ijc=a, min_sjc=b)

    def from_model(self, model):
        return dict(min_ijc=1, min_sjc=1000)

    def check(self, inp):
        import argparse, tempfile, shutil, os
        from pathlib import Path
        from moPepGen import cli
        from moPepGen.parser import RMATSParser
        from . import cv_run
        data = Path(os.environ.get('PYVC_REPO', '/repo')) / 'test' / 'files'
        asd = data / 'alternative_splicing'
        files = dict(skipped_exon=asd / 'rmats_se_case_1.SE.JC.txt', alternative_5_splicing=asd / 'rmats_a5ss_case_1.A5SS.JC.txt',
                     alternative_3_splicing=asd / 'rmats_a3ss_case_1.A3SS.JC.txt', mutually_exclusive_exons=asd / 'rmats_mxe_case_1.MXE.JC.txt',
                     retained_intron=asd / 'rmats_ri_case_1.RI.JC.txt')
        d = Path(tempfile.mkdtemp(prefix='verif_c16_'))
        try:
            args = argparse.Namespace(command='parseRMATS', output_path=d / 'out.gvf', source='rMATS', min_ijc=inp['min_ijc'], min_sjc=inp['min_sjc'],
                                      index_dir=None, genome_fasta=data / 'genome.fasta', annotation_gtf=data / 'annotation.gtf', proteome_fasta=None,
                                      reference_source=None, quiet=True, debug_level=1, **files)
            cli.parse_rmats(args)
            got = set()
            if (d / 'out.gvf').exists():
                for line in open(d / 'out.gvf'):
                    if not line.startswith('#'):
                        f = line.rstrip('\n').split('\t')
                        got.add((f[0], f[1], f[2], f[4], f[7]))
            anno, genome, _ = cv_run.demo_reference()
            want = set()
            kinds = dict(skipped_exon='SE', alternative_5_splicing='A5SS', alternative_3_splicing='A3SS', mutually_exclusive_exons='MXE', retained_intron='RI')
            for opt, path in files.items():
                for rec in RMATSParser.parse(path, kinds[opt]):
                    for v in rec.convert_to_variant_records(anno=anno, genome=genome, min_ijc=inp['min_ijc'], min_sjc=inp['min_sjc']):
                        f = v.to_string().split('\t')
                        want.add((f[0], f[1], f[2], f[4], f[7]))
            if got != want:
                return dict(call=f"parseRMATS --min-ijc {inp['min_ijc']} --min-sjc {inp['min_sjc']}", observed=f'{len(got)} records; only in output: {sorted(got - want)[:3]}',
                            expected=f'{len(want)} records; missing: {sorted(want - got)[:3]}', signature='cli-differs-from-record-classes')
        finally:
            shutil.rmtree(d, ignore_errors=True)
        return None


NATIVE = [NativeRmats(), NativeRmatsCLI()]
