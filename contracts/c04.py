"""C04 — output hygiene: validity filters, X/* exclusion, table <-> FASTA consistency.
(The guards in the three calling commands are in c06.py (callVariant), c08.py (callNovelORF), c09.py.)"""
from __future__ import annotations
import types
import z3
from pyvc.contract import Contract, Lemma, register
from pyvc.core import Unsupported, as_bool
from pyvc.interp import LoopSpec, PyRaise
from pyvc.symlist import SymList
from pyvc.values import *
from .c08 import OpaqueSet

VPT = 'moPepGen/svgraph/VariantPeptideTable.py'
VPP = 'moPepGen/aa/VariantPeptidePool.py'
VPD = 'moPepGen/svgraph/VariantPeptideDict.py'
I_, B_, R_ = z3.IntSort(), z3.BoolSort(), z3.RealSort()


def mk_seq(I, name='seq'):
    """a peptide sequence known through its length, mass, membership and symbol predicates"""
    e = I.e
    s = types.SimpleNamespace()
    s.len = e.int(f'{name}_len')
    e.assume(s.len >= 0)
    s.mw = e.real(f'{name}_mw')
    s.canonical = e.bool(f'{name}_in_canonical_pool')
    s.denied = e.bool(f'{name}_in_denylist')
    s.has_x = e.bool(f'{name}_has_X')
    s.has_star = e.bool(f'{name}_has_stop')
    s.in_pool = e.bool(f'{name}_already_in_pool')
    s.obj = SymObj('Seq', h=s)
    s.str = OpaqueStr(['str', name])
    s.str.h = s
    return s


def install_seq_models(reg):
    def h_of(v):
        if isinstance(v, SymObj) and v.cls == 'Seq':
            return v.fields['h']
        if isinstance(v, OpaqueStr) and hasattr(v, 'h'):
            return v.h
        return None
    reg.protocol_('Seq', '__len__', lambda I, o: o.fields['h'].len)

    def seq_contains(I, o, item):
        if item == 'X':
            return o.fields['h'].has_x
        if item == '*':
            return o.fields['h'].has_star
        raise Unsupported(f'{item!r} in seq')
    reg.protocol_('Seq', '__contains__', seq_contains)
    reg.str_hooks.append(lambda v: (lambda I, v: v.fields['h'].str) if isinstance(v, SymObj) and v.cls == 'Seq' else None)

    def molecular_weight(I, a, k):
        h = h_of(a[0])
        if h is None:
            raise Unsupported('molecular_weight of an unknown sequence')
        I.e.note('assumed: Bio.SeqUtils.molecular_weight(seq, "protein") is a function of the sequence (uninterpreted real)')
        return h.mw
    reg.ext_('Bio.SeqUtils.molecular_weight', molecular_weight)
    reg.ext_('SeqUtils.molecular_weight', molecular_weight)
    reg.h_of = h_of
    # Bio.SeqRecord (assumed): len(record) = len(record.seq); str(record) is the multi-line summary of the
    # record, a text that is not the sequence
    for cn in ('AminoAcidSeqRecord', 'AminoAcidSeqRecordWithCoordinates'):
        if not reg.protocol(cn, '__len__'):
            reg.protocol_(cn, '__len__', lambda I, o: I.length(o.fields['seq']))
            reg.protocol_(cn, '__bool__', lambda I, o: True)       # SeqRecord.__bool__ is always True
    reg.str_hooks.append(lambda v: (lambda I, v: OpaqueStr(['<SeqRecord summary>', v.fields.get('id')]))
                         if isinstance(v, SymObj) and v.cls in ('AminoAcidSeqRecord', 'AminoAcidSeqRecordWithCoordinates')
                         else None)


def params_obj(I, name='p'):
    e = I.e
    p = types.SimpleNamespace(min_mw=e.real(f'{name}_min_mw'), min_length=e.int(f'{name}_min_length'),
                              max_length=e.int(f'{name}_max_length'))
    p.obj = SymObj('CleavageParams', min_mw=p.min_mw, min_length=p.min_length, max_length=p.max_length,
                   enzyme='trypsin', exception=None, miscleavage=2)
    return p


def valid_spec(s, p):
    """from the property: minimum/maximum length, minimum mass, not canonical"""
    return z3.And(s.mw >= p.min_mw, s.len >= p.min_length, s.len <= p.max_length, z3.Not(s.canonical))


@register
class TableIsValid(Contract):
    path, qualname, props = VPT, 'VariantPeptideTable.is_valid', ('C04', 'C05')
    models = (install_seq_models,)

    def setup(self, I):
        st = types.SimpleNamespace()
        st.s, st.p = mk_seq(I), params_obj(I)
        canon = OpaqueSet(True, lambda item: st.s.canonical if getattr(item, 'h', None) is st.s else I.e.bool('other'))
        st.args = [SymObj('VariantPeptideTable'), st.s.obj, canon, st.p.obj]
        self._cur = st
        return st

    def post_return(self, I, st, ret):
        I.e.prove('C04/table.is_valid/true-iff-within-limits-and-not-canonical', as_bool(I.truth(ret)) == valid_spec(st.s, st.p))


@register
class PoolAddPeptide(Contract):
    path, qualname, props = VPP, 'VariantPeptidePool.add_peptide', ('C04', 'C05', 'C18')
    assumptions = ('assumed: get_equivalent(pool, peptide) returns the record of the pool with the same sequence or None (set lookup by sequence equality)',)

    @property
    def models(self):
        return (install_seq_models, self.install_models)

    def install_models(self, reg):
        c = self

        def get_equivalent(I, a, k):
            st = c._cur
            I.e.prove('C04/pool.add/looked-up-in-this-pool', a[0] is st.peptides and a[1] is st.pep)
            if I.e.branch(st.s.in_pool, 'sequence already in pool'):
                return st.same
            return None
        reg.func_('moPepGen/__init__.py', 'get_equivalent', get_equivalent)

    def setup(self, I):
        e = I.e
        st = types.SimpleNamespace()
        st.s, st.p = mk_seq(I), params_obj(I)
        st.skip = e.bool('skip_checking')
        st.adds = []
        class Peps:
            def sym_method(s_, I, name, a, k):
                if name == 'add':
                    st.adds.append(a[0])
                    return None
                raise Unsupported(name)
        st.peptides = Peps()
        st.pep = SymObj('AminoAcidSeqRecord', seq=st.s.obj, description=OpaqueStr(['new label']), id=None, name=None)
        st.same = SymObj('AminoAcidSeqRecord', seq=SymObj('Seq', h=st.s), description=OpaqueStr(['old label']), id=None, name=None)
        st.same0 = st.same.fields['description']
        st.pool = SymObj('VariantPeptidePool', peptides=st.peptides, peptide_delimeter=' ')
        canon = OpaqueSet(True, lambda item: st.s.canonical if getattr(item, 'h', None) is st.s
                          else I.e.bool('some_other_text_in_canonical_pool'))
        st.args = [st.pool, st.pep, canon, st.p.obj]
        st.kwargs = dict(skip_checking=st.skip)
        self._cur = st
        return st

    def post_return(self, I, st, ret):
        e = I.e
        ok = as_bool(I.truth(ret))
        e.prove('C04/pool.add/accepted-only-if-valid-or-unchecked', z3.Implies(ok, z3.Or(st.skip, valid_spec(st.s, st.p))))
        e.prove('C04/pool.add/rejected-only-if-invalid', z3.Implies(z3.Not(ok), z3.And(z3.Not(st.skip), z3.Not(valid_spec(st.s, st.p)))))
        changed = bool(st.adds) or st.same.fields['description'] is not st.same0
        e.prove('C04/pool.add/pool-changes-iff-accepted', ok == changed)
        e.prove('C04/pool.add/sequence-never-stored-twice', z3.Implies(st.s.in_pool, not st.adds))
        if st.adds:
            e.prove('C04/pool.add/stores-this-record-unchanged', len(st.adds) == 1 and st.adds[0] is st.pep and st.pep.fields['seq'] is st.s.obj)
        if st.same.fields['description'] is not st.same0:
            d = st.same.fields['description']
            e.prove('C18/merge/label-appended-to-the-existing-entry',
                    isinstance(d, OpaqueStr) and d.parts[:1] == ['old label'] and d.parts[-1:] == ['new label'] and ' ' in d.parts)
            e.prove('C18/merge/existing-sequence-kept', st.same.fields['seq'].fields['h'] is st.s)


class _DictValid(Contract):
    props = ('C04', 'C05')
    models = (install_seq_models,)

    def setup(self, I):
        st = types.SimpleNamespace()
        st.s, st.p = mk_seq(I), params_obj(I)
        have = OpaqueSet(True, lambda item: st.s.in_pool)
        deny = OpaqueSet(True, lambda item: st.s.denied)
        st.have, st.deny = have, deny
        self._cur = st
        return st

    def post_return(self, I, st, ret):
        s, p = st.s, st.p
        want = z3.Or(s.in_pool, z3.And(p.min_length <= s.len, s.len <= p.max_length, z3.Not(s.denied), z3.Not(s.has_x), s.mw >= p.min_mw))
        I.e.prove('C04/is_valid_seq/true-iff-known-or-(size-ok,not-denied,no-X,mass-ok)', as_bool(I.truth(ret)) == want)


@register
class DictIsValidSeq(_DictValid):
    path, qualname = VPD, 'VariantPeptideDict.is_valid_seq'

    def setup(self, I):
        st = super().setup(I)
        st.args = [SymObj('VariantPeptideDict', seqs=st.have, cleavage_params=st.p.obj), st.s.obj, st.deny]
        return st


@register
class NodesIsValidSeq(_DictValid):
    path, qualname = VPD, 'MiscleavedNodes.is_valid_seq'

    def setup(self, I):
        st = super().setup(I)
        st.args = [SymObj('MiscleavedNodes', cleavage_params=st.p.obj), st.s.obj, st.have, st.deny]
        return st


@register
class AddMiscleavedSequences(Contract):
    path, qualname, props = VPD, 'VariantPeptideDict.add_miscleaved_sequences', ('C04',)
    assumptions = ('havoc: find_miscleaved_nodes / join_miscleaved_peptides (graph traversal) yield arbitrary (sequence, metadata) pairs',)

    @property
    def models(self):
        return (install_seq_models, self.install_models)

    def install_models(self, reg):
        c = self
        reg.method_('VariantPeptideDict', 'find_miscleaved_nodes', lambda I, o, a, k: SymObj('MiscleavedNodesStub'))

        def join(I, o, a, k):
            st = c._cur
            I.e.prove('C04/add_miscleaved/joins-into-this-dictionary', k.get('pool') is st.peptides and k.get('denylist') is st.deny)
            def item(i):
                s = mk_seq(I, 'yielded')
                st.yielded = s
                return (s.obj, SymObj('VariantPeptideMetadata', key=OpaqueStr(['key'])))
            return FnView(I.e.int('n_yielded'), item, tag='joined')
        reg.method_('MiscleavedNodesStub', 'join_miscleaved_peptides', join)
        reg.method_('VariantPeptideMetadata', 'get_key', lambda I, o, a, k: o.fields['key'])

    def setup(self, I):
        e = I.e
        st = types.SimpleNamespace()
        st.stored, st.added = [], []
        class PepDict:
            def sym_method(s_, I, name, a, k):
                if name == 'setdefault':
                    st.stored.append(a[0])
                    return {}
                raise Unsupported(name)
        class SeqSet:
            def sym_method(s_, I, name, a, k):
                if name == 'add':
                    st.added.append(a[0])
                    return None
                raise Unsupported(name)
        st.peptides, st.deny = PepDict(), SymObj('Denylist')
        st.self = SymObj('VariantPeptideDict', tx_id='T', gene_id='G', peptides=st.peptides, seqs=SeqSet(), global_variant=None,
                         truncate_sec=False, check_external_variants=True, check_orf=False)
        st.args = [st.self]
        st.kwargs = dict(node=SymObj('PVGNode'), orfs=[], cleavage_params=SymObj('CleavageParams'), check_variants=True,
                         is_start_codon=False, additional_variants=[], denylist=st.deny)
        self._cur = st
        return st

    def on_head(self, I, env, k):
        st = self._cur
        st.s0, st.a0 = len(st.stored), len(st.added)

    def step(self, I, env, k):
        st = self._cur
        y = st.yielded
        new = st.stored[st.s0:] + st.added[st.a0:]
        if new:
            return [('stored-sequence-has-no-X-and-no-stop', z3.And(z3.Not(y.has_x), z3.Not(y.has_star))),
                    ('stores-the-yielded-sequence', all(x is y.obj for x in new))]
        return [('skipped-only-sequences-with-X', y.has_x)]

    @property
    def loops(self):
        return {0: LoopSpec(inv=lambda I, env, k: [], on_head=self.on_head, step=self.step)}

    def post_raise(self, I, st, exc):
        y = st.yielded
        I.e.prove('C04/add_miscleaved/raises-only-for-a-stop-symbol', z3.And(exc.cls == 'ValueError', y.has_star, z3.Not(y.has_x)))
        I.e.prove('C04/add_miscleaved/nothing-stored-for-the-offending-sequence', len(st.stored) == st.s0)


# ----------------------------------------------------------------------------
# VariantPeptideTable.add_peptide / load_peptide / write_fasta over an abstract file
# ----------------------------------------------------------------------------
class GhostFile:
    """text file: offset counter + log of written lines (each write has a fresh positive length)"""
    def __init__(self, I, st):
        self.I, self.st = I, st
        self.off = I.e.int('offset0')
        I.e.assume(self.off >= 0)
        self.writes = []
        self.pos = None        # position set by the last seek

    def sym_method(self, I, name, a, k):
        if name == 'tell':
            return self.off
        if name == 'write':
            n = I.e.int('linelen')
            I.e.assume(n > 0)
            self.writes.append((self.off, a[0]))
            self.off = self.off + n
            return n
        if name == 'seek':
            self.pos = a[0]
            self.st.seeks.append(a)
            return a[0]
        if name == 'read':
            return self.st.read(I, self, a[0])
        raise Unsupported(f'file.{name}')


class SeqKey:
    """the peptide used as dictionary key / first column"""
    def __init__(self, name='seq'):
        self.name = name

    def sym_getslice(self, I, lo, hi, st):
        return SubSeq(self, lo, hi)

    def sym_str(self, I):
        return StrOf(self)

    def sym_eq(self, I, other):
        if isinstance(other, FieldStr):
            return other.is_seq
        return other is self


class SubSeq:
    def __init__(self, of, lo, hi):
        self.of, self.lo, self.hi = of, lo, hi

    def sym_str(self, I):
        return StrOf(self)


class StrOf:
    def __init__(self, v):
        self.v = v


class FieldStr:
    def __init__(self, is_seq=None, label=None):
        self.is_seq, self.label = is_seq, label


class RangeList:
    """a Python list of (start, end) byte ranges: symbolic length + two arrays (functional updates)"""
    def __init__(self, n, S, E):
        self.n, self.S, self.E = n, S, E

    @classmethod
    def from_py(cls, I, v):
        v = list(v or [])
        S, E = I.e.array('rng_start'), I.e.array('rng_end')
        for i, (a, b) in enumerate(v):
            S, E = z3.Store(S, i, a), z3.Store(E, i, b)
        return cls(z3.IntVal(len(v)), S, E)

    def covers(self, x, nm='t_c'):
        t = z3.Int(nm)
        return z3.Exists([t], z3.And(0 <= t, t < self.n, self.S[t] <= x, x < self.E[t]))

    def sym_truth(self, I):
        return self.n != 0

    def sym_len(self, I):
        return self.n

    def sym_getitem(self, I, idx):
        i = I.norm_index(idx, self.n)
        return (self.S[i], self.E[i])

    def sym_setitem(self, I, idx, v):
        i = I.norm_index(idx, self.n)
        a, b = v
        self.S, self.E = z3.Store(self.S, i, a), z3.Store(self.E, i, b)

    def sym_method(self, I, name, a, k):
        if name == 'append':
            x, y = a[0]
            self.S, self.E = z3.Store(self.S, self.n, x), z3.Store(self.E, self.n, y)
            self.n = self.n + 1
            return None
        raise Unsupported(f'ranges.{name}')


@register
class TableAddPeptide(Contract):
    path, qualname, props = VPT, 'VariantPeptideTable.add_peptide', ('C04',)
    assumptions = ('assumed: handle.tell()/write() of a text file: the offset advances by the (positive) length of every written line',)

    def setup(self, I):
        e = I.e
        st = types.SimpleNamespace()
        st.seeks = []
        st.file = GhostFile(I, st)
        st.seq = SeqKey()
        st.nseg = e.int('n_segments')
        e.assume(st.nseg >= 0)
        st.qs, st.qe = z3.Function('qstart', I_, I_), z3.Function('qend', I_, I_)
        def seg_at(i):
            iz = i if is_z3(i) else z3.IntVal(i)
            q = SymObj('FeatureLocation', start=st.qs(iz), end=st.qe(iz), strand=None, seqname=None, reading_frame_index=None,
                       start_offset=0, end_offset=0, ref=None, ref_db=None)
            return SymObj('PeptideSegmentStub', query=q, i=iz)
        st.label = OpaqueStr(['LABEL'])
        st.anno = SymObj('AnnotatedPeptideLabel', label=st.label, segments=FnView(st.nseg, seg_at, tag='segments'))
        st.known = e.bool('seq_already_indexed')
        # abstract view of index[seq]: a list of byte ranges (None when the peptide is not indexed yet)
        st.old = RangeList(I.e.int('n_old_ranges'), e.array('old_start'), e.array('old_end'))
        e.assume(st.old.n >= 0)
        st.entry = {'known': st.known, 'list': RangeList(st.old.n, st.old.S, st.old.E)}

        class Index:
            def _key(s_, I, key):
                I.e.prove('C04/table.add/index-keyed-by-the-peptide', key is st.seq)

            def sym_contains(s_, I, item):
                s_._key(I, item)
                return st.entry['known']

            def sym_getitem(s_, I, key):
                s_._key(I, key)
                if not I.test(st.entry['known'], 'peptide already indexed'):
                    I.raise_('KeyError', 'seq')
                return st.entry['list']

            def sym_setitem(s_, I, key, v):
                s_._key(I, key)
                st.entry['known'] = True
                st.entry['list'] = v if isinstance(v, RangeList) else RangeList.from_py(I, v)

            def sym_method(s_, I, name, a, k):
                if name == 'setdefault':
                    s_._key(I, a[0])
                    if not I.test(st.entry['known'], 'peptide already indexed'):
                        s_.sym_setitem(I, a[0], a[1] if len(a) > 1 else None)
                    return st.entry['list']
                if name == 'get':
                    s_._key(I, a[0])
                    if I.test(st.entry['known'], 'peptide already indexed'):
                        return st.entry['list']
                    return a[1] if len(a) > 1 else None
                raise Unsupported(f'index.{name}')
        st.table = SymObj('VariantPeptideTable', handle=st.file, index=Index(), header_delimeter=' ')
        st.start0 = st.file.off
        st.args = [st.table, st.seq, st.anno]
        self._cur = st
        return st

    @property
    def models(self):
        c = self
        def inst(reg):
            reg.method_('PeptideSegmentStub', 'to_line', lambda I, o, a, k: OpaqueStr(['SEGLINE', o.fields['i']]))
        return (inst,)

    def on_head(self, I, env, k):
        self._cur.w0 = len(self._cur.file.writes)

    def step(self, I, env, k):
        st = self._cur
        new = st.file.writes[st.w0:]
        ok = len(new) == 1
        good = False
        if ok:
            line = new[0][1]
            p = line.parts if isinstance(line, OpaqueStr) else []
            good = (len(p) == 8 and isinstance(p[0], StrOf) and p[0].v is st.seq and p[1] == '\t' and p[2] is st.label and p[3] == '\t'
                    and isinstance(p[4], StrOf) and isinstance(p[4].v, SubSeq) and p[4].v.of is st.seq
                    and z3.is_true(z3.simplify(z3.And(p[4].v.lo == st.qs(k), p[4].v.hi == st.qe(k))))
                    and p[5] == '\t' and isinstance(p[6], OpaqueStr) and p[6].parts[0] == 'SEGLINE'
                    and z3.is_true(z3.simplify(p[6].parts[1] == k)) and p[7] == '\n')
        return [('one-row-per-segment', ok),
                ('row=(peptide,label,peptide[start:end],segment-line)', good)]

    @property
    def loops(self):
        return {0: LoopSpec(inv=lambda I, env, k: [('offset-only-grows', self._cur.file.off >= self._cur.start0)],
                            havoc=lambda I, env, k: setattr(self._cur.file, 'off', I.e.int('offset')),
                            on_head=self.on_head, step=self.step)}

    def post_return(self, I, st, ret):
        e = I.e
        fin = st.entry['list']
        isl = isinstance(fin, RangeList)
        e.prove('C04/table.add/peptide-indexed-afterwards', as_bool(st.entry['known']) if isl else False)
        if not isl:
            return
        # the byte ranges recorded for the peptide cover exactly what they covered before plus the rows just
        # written [start0, end) -- stated over bytes, so merging adjacent ranges is allowed, losing one is not
        x, t = z3.Ints('x_byte t_rng')
        end = st.file.off
        old_cov = z3.And(st.known, st.old.covers(x, 't_old'))
        new_cov = fin.covers(x, 't_new')
        e.prove('C04/table.add/recorded-ranges-cover-the-old-ranges-and-the-new-rows',
                z3.Implies(z3.Or(old_cov, z3.And(st.start0 <= x, x < end)), new_cov))
        e.prove('C04/table.add/recorded-ranges-cover-nothing-else',
                z3.Implies(new_cov, z3.Or(old_cov, z3.And(st.start0 <= x, x < end))))


@register
class TableLoadPeptide(Contract):
    path, qualname, props = VPT, 'VariantPeptideTable.load_peptide', ('C04',)
    assumptions = ('assumed: handle.seek(s, 0); handle.read(n) returns the text written in [s, s+n); rows contain no tab or newline inside a field',)

    def setup(self, I):
        e = I.e
        st = types.SimpleNamespace()
        st.seeks = []
        st.seq = SeqKey()
        st.nr = e.int('n_ranges')
        e.assume(st.nr >= 0)
        st.rs, st.re = z3.Function('range_start', I_, I_), z3.Function('range_end', I_, I_)
        st.nl = z3.Function('n_lines', I_, I_)
        st.f0_is_seq = z3.Function('row_peptide_is_seq', I_, I_, B_)
        a = z3.Int('ra')
        e.assume(z3.ForAll([a], st.nl(a) >= 1))
        st.labels_added = []
        st.cur_range = None

        def read(I, f, n):
            # which recorded range are we in: the one whose start was just sought
            r = st.cur_r
            I.e.prove('C04/table.load/reads-from-the-recorded-start', f.pos is not None and z3.is_true(z3.simplify(f.pos == st.rs(r))))
            I.e.prove('C04/table.load/reads-exactly-the-recorded-length', n == st.re(r) - st.rs(r))
            return Buffer(r)
        st.read = read

        class Buffer:
            def __init__(s_, r):
                s_.r = r
            def sym_method(s_, I, name, a, k):
                if name == 'rstrip':
                    return s_
                if name == 'split' and a == ['\n']:
                    r = s_.r
                    return FnView(st.nl(r), lambda i: Line(r, i if is_z3(i) else z3.IntVal(i)), tag='lines')
                raise Unsupported(f'buffer.{name}')

        class Line:
            def __init__(s_, r, i):
                s_.r, s_.i = r, i
            def sym_method(s_, I, name, a, k):
                if name == 'split' and a == ['\t']:
                    return [FieldStr(is_seq=st.f0_is_seq(s_.r, s_.i)), FieldStr(label=(s_.r, s_.i))] + [FieldStr() for _ in range(10)]
                raise Unsupported(f'line.{name}')

        class Index:
            def sym_getitem(s_, I, key):
                I.e.prove('C04/table.load/index-looked-up-by-the-peptide', key is st.seq)
                def rng(i):
                    iz = i if is_z3(i) else z3.IntVal(i)
                    return RangeTuple(iz)
                return FnView(st.nr, rng, tag='ranges')

        class RangeTuple:
            def __init__(s_, r):
                s_.r = r
            def sym_unpack(s_, I, n):
                st.cur_r = s_.r
                return [st.rs(s_.r), st.re(s_.r)]
        st.file = GhostFile(I, st)
        st.table = SymObj('VariantPeptideTable', handle=st.file, index=Index(), header_delimeter=' ')
        st.args = [st.table, st.seq]
        self._cur = st
        return st

    @property
    def models(self):
        c = self
        def inst(reg):
            class LabelSet:
                def sym_method(s_, I, name, a, k):
                    if name == 'add':
                        c._cur.labels_added.append(a[0])
                        return None
                    raise Unsupported(name)
            c.LabelSet = LabelSet
            reg.set_hooks.append(lambda v: None)
            def rec(I, a, k):
                return SymObj('AminoAcidSeqRecord', seq=k.get('seq'), description=k.get('description'), name=k.get('name'))
            reg.ctor_('AminoAcidSeqRecord', rec)
            def join_hook(obj, name):
                if isinstance(obj, str) and name == 'join':
                    return lambda I, o, a, k: JoinedLabels(a[0]) if isinstance(a[0], LabelSet) else None
                return None
            reg.value_methods.append(join_hook)
        return (inst,)

    def outer_havoc(self, I, env, k):
        env['labels'] = self.LabelSet()

    def on_init(self, I, env):
        if isinstance(env.get('labels'), set):
            env['labels'] = self.LabelSet()

    def inner_on_head(self, I, env, k):
        self._cur.l0 = len(self._cur.labels_added)
        self._cur.cur_i = k

    def inner_step(self, I, env, k):
        st = self._cur
        new = st.labels_added[st.l0:]
        ok = len(new) == 1 and isinstance(new[0], FieldStr) and new[0].label is not None \
            and z3.is_true(z3.simplify(z3.And(new[0].label[0] == st.cur_r, new[0].label[1] == k)))
        return [('adds-the-header-field-of-this-row-and-nothing-else', ok),
                ('row-belongs-to-the-peptide', st.f0_is_seq(st.cur_r, k))]

    @property
    def loops(self):
        T = lambda I, env, k: []
        return {0: LoopSpec(inv=T, havoc=self.outer_havoc, on_init=self.on_init),
                1: LoopSpec(inv=T, on_head=self.inner_on_head, step=self.inner_step)}

    def post_return(self, I, st, ret):
        e = I.e
        e.prove('C04/table.load/record-carries-the-peptide-sequence', isinstance(ret, SymObj) and ret.fields['seq'] is st.seq)
        d = ret.fields['description'] if isinstance(ret, SymObj) else None
        joined = (isinstance(d, OpaqueStr) and d.parts[:2] == ['join', ' '] and isinstance(d.parts[2], self.LabelSet)) or \
            (d == '' and not st.labels_added)
        e.prove('C04/table.load/header-is-the-join-of-the-collected-labels', joined and ret.fields['name'] is d)

    def post_raise(self, I, st, exc):
        I.e.prove('C04/table.load/raises-only-when-a-row-of-a-recorded-range-belongs-to-another-peptide',
                  z3.And(exc.cls == 'ValueError', z3.Not(st.f0_is_seq(st.cur_r, st.cur_i))))
        I.e.prove('C04/table.load/no-label-taken-from-the-foreign-row', len(st.labels_added) == st.l0)


class JoinedLabels:
    def __init__(self, labels):
        self.labels = labels


@register
class TableWriteFasta(Contract):
    path, qualname, props = VPT, 'VariantPeptideTable.write_fasta', ('C04',)
    assumptions = ('assumed: iterating a dict yields every key exactly once (keys are peptide sequences: Seq equality/hash)',
                   'modular: load_peptide through a stub that returns the record of its argument')

    def setup(self, I):
        e = I.e
        st = types.SimpleNamespace()
        st.n = e.int('n_keys')
        e.assume(st.n >= 0)
        st.written = []
        class Index:
            def sym_view(s_, I):
                return FnView(st.n, lambda i: SymObj('SeqKeyStub', i=i if is_z3(i) else z3.IntVal(i)), tag='index-keys')
        st.table = SymObj('VariantPeptideTable', handle=None, index=Index(), header_delimeter=' ')
        st.path = OpaqueStr(['out.fasta'])
        st.args = [st.table, st.path]
        self._cur = st
        return st

    @property
    def models(self):
        c = self
        def inst(reg):
            reg.ext_('open', lambda I, a, k: SymObj('File', path=a[0], mode=a[1] if len(a) > 1 else 'r'))
            def writer(I, a, k):
                c._cur.writer_handle = a[0]
                probe = SymObj('Rec', description='D', id='I')
                I.e.prove('C04/write_fasta/title-is-the-description', 'record2title' in k and I.call(k['record2title'], [probe], {}) == 'D')
                return SymObj('FastaWriter')
            reg.ext_('Bio.SeqIO.FastaIO.FastaWriter', writer)
            reg.ext_('FastaIO.FastaWriter', writer)
            reg.method_('FastaWriter', 'write_record', lambda I, o, a, k: c._cur.written.append(a[0]))
            reg.method_('VariantPeptideTable', 'load_peptide', lambda I, o, a, k: SymObj('LoadedRecord', of=a[0]))
        return (inst,)

    def on_head(self, I, env, k):
        self._cur.w0 = len(self._cur.written)

    def step(self, I, env, k):
        st = self._cur
        new = st.written[st.w0:]
        ok = len(new) == 1 and isinstance(new[0], SymObj) and new[0].cls == 'LoadedRecord' \
            and z3.is_true(z3.simplify(new[0].fields['of'].fields['i'] == k))
        return [('exactly-one-record-per-indexed-peptide', ok)]

    @property
    def loops(self):
        return {0: LoopSpec(inv=lambda I, env, k: [], on_head=self.on_head, step=self.step)}

    def post_return(self, I, st, ret):
        I.e.prove('C04/write_fasta/written-to-the-requested-path', st.writer_handle.fields['path'] is st.path and st.writer_handle.fields['mode'] in ('wt', 'w'))


# ----------------------------------------------------------------------------
# Native side: hygiene of real outputs (bounded stand-in for the end-to-end statement)
# ----------------------------------------------------------------------------
from pyvc.native import NativeCheck


class NativeHygiene(NativeCheck):
    name = 'output_hygiene'
    props = ('C04',)
    functions = (f'{VPT}:VariantPeptideTable.is_valid', f'{VPT}:VariantPeptideTable.add_peptide', f'{VPT}:VariantPeptideTable.load_peptide',
                 f'{VPT}:VariantPeptideTable.write_fasta', f'{VPP}:VariantPeptidePool.add_peptide')
    bounded_for = 'outputs of callVariant / callNovelORF / callAltTranslation: non-canonical, within limits, no X/*, unique; peptide table = FASTA pairs with sub-sequence slices'
    bound = ('demo inputs; callVariant x {default, miscleavage 0/3, min_length 5/9, max_length 15/35, SECT, W2F, lysc} ; callNovelORF x {default, w2f, coding}; '
             'callAltTranslation x {SECT, W2F, both}')
    quick_budget_s = 150
    thorough_budget_s = 600

    def cases(self, rng, tier):
        cv = [dict(), dict(miscleavage='0'), dict(miscleavage='3'), dict(min_length=5), dict(max_length=15),
              dict(selenocysteine_termination=True, w2f_reassignment=True), dict(cleavage_rule='lysc', cleavage_exception=None)]
        if tier == 'thorough':
            cv += [dict(min_length=9), dict(max_length=35), dict(min_mw='1000.'), dict(noncanonical_transcripts=True), dict(cleavage_rule='asp-n', cleavage_exception=None)]
        for o in cv:
            yield dict(cmd='callVariant', opts=o)
        for o in (dict(), dict(w2f_reassignment=True), dict(coding_novel_orf=True)):
            yield dict(cmd='callNovelORF', opts=o)
        for o in (dict(selenocysteine_termination=True), dict(w2f_reassignment=True), dict(selenocysteine_termination=True, w2f_reassignment=True)):
            yield dict(cmd='callAltTranslation', opts=o)

    _canon = {}

    def canon(self, rule, exc, mc, lo, hi, mw):
        from . import cv_run, pyspec
        key = (rule, exc, mc, lo, hi, mw)
        if key not in self._canon:
            anno, genome, proteome = cv_run.demo_reference()
            nf = {t for t in proteome if t in anno.transcripts and anno.transcripts[t].is_cds_start_nf()}
            self._canon[key] = pyspec.canonical_pool({t: str(p.seq) for t, p in proteome.items()}, rule, exc, mc, mw, lo, hi, cds_start_nf=nf)
        return self._canon[key]

    def check(self, inp):
        from . import cv_run, pyspec
        o = dict(inp['opts'])
        table = None
        try:
            if inp['cmd'] == 'callVariant':
                o.setdefault('cleavage_exception', 'auto')
                fasta, table = cv_run.run_call_variant(threads=1, **o)
            elif inp['cmd'] == 'callNovelORF':
                fasta, _ = cv_run.run_call_novel_orf(**o)
            else:
                fasta = cv_run.run_call_alt_translation(**o)
        except Exception as ex:      # the command aborted: nothing was written, so nothing to check here
            self.aborted = getattr(self, 'aborted', []) + [dict(input=inp, error=f'{type(ex).__name__}: {ex}'[:120])]
            return None
        rule = o.get('cleavage_rule', 'trypsin')
        exc = pyspec.resolve_exception(rule, o.get('cleavage_exception', 'trypsin_exception' if inp['cmd'] != 'callVariant' else 'auto'))
        mc, lo, hi, mw = int(o.get('miscleavage', '2')), o.get('min_length', 7), o.get('max_length', 25), float(o.get('min_mw', '500.'))
        canon = self.canon(rule, exc, mc, lo, hi, mw)
        seqs = list(fasta.values())
        if len(set(seqs)) != len(seqs):
            return dict(observed='a sequence occurs twice in the FASTA', expected='each sequence exactly once')
        for h, s in fasta.items():
            if 'X' in s or '*' in s:
                return dict(observed=dict(header=h, seq=s), expected='no X or stop symbol')
            if not (lo <= len(s) <= hi) or pyspec.mol_weight(s) < mw:
                return dict(observed=dict(header=h, seq=s, len=len(s)), expected=f'length in [{lo},{hi}] and mass >= {mw}')
            if s in canon:
                return dict(observed=dict(header=h, seq=s), expected='not in the canonical pool (incl. I->L images) for the same settings')
        if table is not None:
            pairs_f = {(s, e) for h, s in fasta.items() for e in h.split(' ')}
            pairs_t = set()
            for row in table:
                if len(row) < 5:
                    return dict(observed=row, expected='table row with >= 5 columns')
                s, hdr, sub, a, b = row[0], row[1], row[2], int(row[3]), int(row[4])
                if s[a:b] != sub:
                    return dict(observed=dict(row=row[:5]), expected='sub-sequence column = stated slice of the peptide')
                pairs_t.add((s, hdr))
            if pairs_t != pairs_f:
                return dict(observed=dict(only_table=sorted(pairs_t - pairs_f)[:3], only_fasta=sorted(pairs_f - pairs_t)[:3]),
                            expected='table lists exactly the (sequence, header entry) pairs of the FASTA')
        return None


class NativePoolAdd(NativeCheck):
    name = 'pool_add_filter'
    props = ('C04',)
    functions = (f'{VPP}:VariantPeptidePool.add_peptide', f'{VPT}:VariantPeptideTable.is_valid')
    bounded_for = ''
    bound = ('CPython cross-check of the proved acceptance rule of VariantPeptidePool.add_peptide / VariantPeptideTable.is_valid: '
             'random peptides (length 3-40) x limits x canonical pool containing the peptide or not')
    quick_budget_s = 5
    thorough_budget_s = 30

    def cases(self, rng, tier):
        aa = 'ACDEFGHIKLMNPQRSTVWY'
        for _ in range(150 if tier != 'thorough' else 3000):
            seq = ''.join(rng.choice(aa) for _ in range(rng.randint(3, 40)))
            yield dict(seq=seq, canonical=rng.random() < 0.5, min_len=rng.choice([3, 7, 10]), max_len=rng.choice([10, 25, 40]),
                       min_mw=rng.choice([0., 500., 1500.]))

    def from_model(self, model):
        return dict(seq='PEPTIDEKAAAR', canonical=True, min_len=5, max_len=30, min_mw=100.)

    def check(self, inp):
        from moPepGen.aa import VariantPeptidePool, AminoAcidSeqRecord
        from moPepGen import params
        from moPepGen.svgraph.VariantPeptideTable import VariantPeptideTable
        from Bio.Seq import Seq
        from Bio import SeqUtils
        import io
        cp = params.CleavageParams(enzyme='trypsin', min_mw=inp['min_mw'], min_length=inp['min_len'], max_length=inp['max_len'])
        canon = {inp['seq']} if inp['canonical'] else {'AAAAAAAK'}
        mw = SeqUtils.molecular_weight(Seq(inp['seq']), 'protein')
        exp = mw >= inp['min_mw'] and inp['min_len'] <= len(inp['seq']) <= inp['max_len'] and not inp['canonical']
        pool = VariantPeptidePool()
        got = pool.add_peptide(AminoAcidSeqRecord(Seq(inp['seq']), description='ENST1|SNV-1-A-T|1', name='x', _id='x'), canon, cp)
        if bool(got) != exp or (len(pool.peptides) == 1) != exp:
            return dict(call='VariantPeptidePool.add_peptide', observed=f'accepted={got} stored={len(pool.peptides)}', expected=f'accepted={exp}',
                        signature='pool-filter')
        got2 = VariantPeptideTable(io.StringIO()).is_valid(Seq(inp['seq']), canon, cp)
        if bool(got2) != exp:
            return dict(call='VariantPeptideTable.is_valid', observed=str(got2), expected=str(exp), signature='table-filter')
        return None

    def nontrivial(self, inp):
        return (len(inp['seq']), inp['canonical'], inp['min_len'], inp['max_len'], inp['min_mw'])


NATIVE = [NativeHygiene(), NativePoolAdd()]
