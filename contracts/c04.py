"""C04 — output hygiene: validity filters, X/* exclusion, table <-> FASTA consistency.
(The guards in the three calling commands are in c06.py (callVariant), c08.py (callNovelORF), c09.py.)"""
from __future__ import annotations
import types
import z3
from pyvc.contract import Contract, Lemma, register
from pyvc.core import Unsupported, as_bool
from pyvc.interp import LoopSpec, PyRaise
from pyvc.symlist import SymList
from pyvc.values import *
from .c08 import OpaqueSet

VPT = 'moPepGen/svgraph/VariantPeptideTable.py'
VPP = 'moPepGen/aa/VariantPeptidePool.py'
VPD = 'moPepGen/svgraph/VariantPeptideDict.py'
I_, B_, R_ = z3.IntSort(), z3.BoolSort(), z3.RealSort()


def mk_seq(I, name='seq'):
    """a peptide sequence known through its length, mass, membership and symbol predicates"""
    e = I.e
    s = types.SimpleNamespace()
    s.len = e.int(f'{name}_len')
    e.assume(s.len >= 0)
    s.mw = e.real(f'{name}_mw')
    s.canonical = e.bool(f'{name}_in_canonical_pool')
    s.denied = e.bool(f'{name}_in_denylist')
    s.has_x = e.bool(f'{name}_has_X')
    s.has_star = e.bool(f'{name}_has_stop')
    s.in_pool = e.bool(f'{name}_already_in_pool')
    s.obj = SymObj('Seq', h=s)
    s.str = OpaqueStr(['str', name])
    s.str.h = s
    return s


def install_seq_models(reg):
    def h_of(v):
        if isinstance(v, SymObj) and v.cls == 'Seq':
            return v.fields['h']
        if isinstance(v, OpaqueStr) and hasattr(v, 'h'):
            return v.h
        return None
    reg.protocol_('Seq', '__len__', lambda I, o: o.fields['h'].len)

    def seq_contains(I, o, item):
        if item == 'X':
            return o.fields['h'].has_x
        if item == '*':
            return o.fields['h'].has_star
        raise Unsupported(f'{item!r} in seq')
    reg.protocol_('Seq', '__contains__', seq_contains)
    reg.str_hooks.append(lambda v: (lambda I, v: v.fields['h'].str) if isinstance(v, SymObj) and v.cls == 'Seq' else None)

    def molecular_weight(I, a, k):
        h = h_of(a[0])
        if h is None:
            raise Unsupported('molecular_weight of an unknown sequence')
        I.e.note('assumed: Bio.SeqUtils.molecular_weight(seq, "protein") is a function of the sequence (uninterpreted real)')
        return h.mw
    reg.ext_('Bio.SeqUtils.molecular_weight', molecular_weight)
    reg.ext_('SeqUtils.molecular_weight', molecular_weight)
    reg.h_of = h_of


def params_obj(I, name='p'):
    e = I.e
    p = types.SimpleNamespace(min_mw=e.real(f'{name}_min_mw'), min_length=e.int(f'{name}_min_length'),
                              max_length=e.int(f'{name}_max_length'))
    p.obj = SymObj('CleavageParams', min_mw=p.min_mw, min_length=p.min_length, max_length=p.max_length,
                   enzyme='trypsin', exception=None, miscleavage=2)
    return p


def valid_spec(s, p):
    """from the property: minimum/maximum length, minimum mass, not canonical"""
    return z3.And(s.mw >= p.min_mw, s.len >= p.min_length, s.len <= p.max_length, z3.Not(s.canonical))


@register
class TableIsValid(Contract):
    path, qualname, props = VPT, 'VariantPeptideTable.is_valid', ('C04', 'C05')
    models = (install_seq_models,)

    def setup(self, I):
        st = types.SimpleNamespace()
        st.s, st.p = mk_seq(I), params_obj(I)
        canon = OpaqueSet(True, lambda item: st.s.canonical if getattr(item, 'h', None) is st.s else I.e.bool('other'))
        st.args = [SymObj('VariantPeptideTable'), st.s.obj, canon, st.p.obj]
        self._cur = st
        return st

    def post_return(self, I, st, ret):
        I.e.prove('C04/table.is_valid/true-iff-within-limits-and-not-canonical', as_bool(I.truth(ret)) == valid_spec(st.s, st.p))


@register
class PoolAddPeptide(Contract):
    path, qualname, props = VPP, 'VariantPeptidePool.add_peptide', ('C04', 'C05', 'C18')
    assumptions = ('assumed: get_equivalent(pool, peptide) returns the record of the pool with the same sequence or None (set lookup by sequence equality)',)

    @property
    def models(self):
        return (install_seq_models, self.install_models)

    def install_models(self, reg):
        c = self

        def get_equivalent(I, a, k):
            st = c._cur
            I.e.prove('C04/pool.add/looked-up-in-this-pool', a[0] is st.peptides and a[1] is st.pep)
            if I.e.branch(st.s.in_pool, 'sequence already in pool'):
                return st.same
            return None
        reg.func_('moPepGen/__init__.py', 'get_equivalent', get_equivalent)

    def setup(self, I):
        e = I.e
        st = types.SimpleNamespace()
        st.s, st.p = mk_seq(I), params_obj(I)
        st.skip = e.bool('skip_checking')
        st.adds = []
        class Peps:
            def sym_method(s_, I, name, a, k):
                if name == 'add':
                    st.adds.append(a[0])
                    return None
                raise Unsupported(name)
        st.peptides = Peps()
        st.pep = SymObj('AminoAcidSeqRecord', seq=st.s.obj, description=OpaqueStr(['new label']), id=None, name=None)
        st.same = SymObj('AminoAcidSeqRecord', seq=SymObj('Seq', h=st.s), description=OpaqueStr(['old label']), id=None, name=None)
        st.same0 = st.same.fields['description']
        st.pool = SymObj('VariantPeptidePool', peptides=st.peptides, peptide_delimeter=' ')
        canon = OpaqueSet(True, lambda item: st.s.canonical)
        st.args = [st.pool, st.pep, canon, st.p.obj]
        st.kwargs = dict(skip_checking=st.skip)
        self._cur = st
        return st

    def post_return(self, I, st, ret):
        e = I.e
        ok = as_bool(I.truth(ret))
        e.prove('C04/pool.add/accepted-only-if-valid-or-unchecked', z3.Implies(ok, z3.Or(st.skip, valid_spec(st.s, st.p))))
        e.prove('C04/pool.add/rejected-only-if-invalid', z3.Implies(z3.Not(ok), z3.And(z3.Not(st.skip), z3.Not(valid_spec(st.s, st.p)))))
        changed = bool(st.adds) or st.same.fields['description'] is not st.same0
        e.prove('C04/pool.add/pool-changes-iff-accepted', ok == changed)
        e.prove('C04/pool.add/sequence-never-stored-twice', z3.Implies(st.s.in_pool, not st.adds))
        if st.adds:
            e.prove('C04/pool.add/stores-this-record-unchanged', len(st.adds) == 1 and st.adds[0] is st.pep and st.pep.fields['seq'] is st.s.obj)
        if st.same.fields['description'] is not st.same0:
            d = st.same.fields['description']
            e.prove('C18/merge/label-appended-to-the-existing-entry',
                    isinstance(d, OpaqueStr) and d.parts[:1] == ['old label'] and d.parts[-1:] == ['new label'] and ' ' in d.parts)
            e.prove('C18/merge/existing-sequence-kept', st.same.fields['seq'].fields['h'] is st.s)


class _DictValid(Contract):
    props = ('C04', 'C05')
    models = (install_seq_models,)

    def setup(self, I):
        st = types.SimpleNamespace()
        st.s, st.p = mk_seq(I), params_obj(I)
        have = OpaqueSet(True, lambda item: st.s.in_pool)
        deny = OpaqueSet(True, lambda item: st.s.denied)
        st.have, st.deny = have, deny
        self._cur = st
        return st

    def post_return(self, I, st, ret):
        s, p = st.s, st.p
        want = z3.Or(s.in_pool, z3.And(p.min_length <= s.len, s.len <= p.max_length, z3.Not(s.denied), z3.Not(s.has_x), s.mw >= p.min_mw))
        I.e.prove('C04/is_valid_seq/true-iff-known-or-(size-ok,not-denied,no-X,mass-ok)', as_bool(I.truth(ret)) == want)


@register
class DictIsValidSeq(_DictValid):
    path, qualname = VPD, 'VariantPeptideDict.is_valid_seq'

    def setup(self, I):
        st = super().setup(I)
        st.args = [SymObj('VariantPeptideDict', seqs=st.have, cleavage_params=st.p.obj), st.s.obj, st.deny]
        return st


@register
class NodesIsValidSeq(_DictValid):
    path, qualname = VPD, 'MiscleavedNodes.is_valid_seq'

    def setup(self, I):
        st = super().setup(I)
        st.args = [SymObj('MiscleavedNodes', cleavage_params=st.p.obj), st.s.obj, st.have, st.deny]
        return st


@register
class AddMiscleavedSequences(Contract):
    path, qualname, props = VPD, 'VariantPeptideDict.add_miscleaved_sequences', ('C04',)
    assumptions = ('havoc: find_miscleaved_nodes / join_miscleaved_peptides (graph traversal) yield arbitrary (sequence, metadata) pairs',)

    @property
    def models(self):
        return (install_seq_models, self.install_models)

    def install_models(self, reg):
        c = self
        reg.method_('VariantPeptideDict', 'find_miscleaved_nodes', lambda I, o, a, k: SymObj('MiscleavedNodesStub'))

        def join(I, o, a, k):
            st = c._cur
            I.e.prove('C04/add_miscleaved/joins-into-this-dictionary', k.get('pool') is st.peptides and k.get('denylist') is st.deny)
            def item(i):
                s = mk_seq(I, 'yielded')
                st.yielded = s
                return (s.obj, SymObj('VariantPeptideMetadata', key=OpaqueStr(['key'])))
            return FnView(I.e.int('n_yielded'), item, tag='joined')
        reg.method_('MiscleavedNodesStub', 'join_miscleaved_peptides', join)
        reg.method_('VariantPeptideMetadata', 'get_key', lambda I, o, a, k: o.fields['key'])

    def setup(self, I):
        e = I.e
        st = types.SimpleNamespace()
        st.stored, st.added = [], []
        class PepDict:
            def sym_method(s_, I, name, a, k):
                if name == 'setdefault':
                    st.stored.append(a[0])
                    return {}
                raise Unsupported(name)
        class SeqSet:
            def sym_method(s_, I, name, a, k):
                if name == 'add':
                    st.added.append(a[0])
                    return None
                raise Unsupported(name)
        st.peptides, st.deny = PepDict(), SymObj('Denylist')
        st.self = SymObj('VariantPeptideDict', tx_id='T', gene_id='G', peptides=st.peptides, seqs=SeqSet(), global_variant=None,
                         truncate_sec=False, check_external_variants=True, check_orf=False)
        st.args = [st.self]
        st.kwargs = dict(node=SymObj('PVGNode'), orfs=[], cleavage_params=SymObj('CleavageParams'), check_variants=True,
                         is_start_codon=False, additional_variants=[], denylist=st.deny)
        self._cur = st
        return st

    def on_head(self, I, env, k):
        st = self._cur
        st.s0, st.a0 = len(st.stored), len(st.added)

    def step(self, I, env, k):
        st = self._cur
        y = st.yielded
        new = st.stored[st.s0:] + st.added[st.a0:]
        if new:
            return [('stored-sequence-has-no-X-and-no-stop', z3.And(z3.Not(y.has_x), z3.Not(y.has_star))),
                    ('stores-the-yielded-sequence', all(x is y.obj for x in new))]
        return [('skipped-only-sequences-with-X', y.has_x)]

    @property
    def loops(self):
        return {0: LoopSpec(inv=lambda I, env, k: [], on_head=self.on_head, step=self.step)}

    def post_raise(self, I, st, exc):
        y = st.yielded
        I.e.prove('C04/add_miscleaved/raises-only-for-a-stop-symbol', z3.And(exc.cls == 'ValueError', y.has_star, z3.Not(y.has_x)))
        I.e.prove('C04/add_miscleaved/nothing-stored-for-the-offending-sequence', len(st.stored) == st.s0)
