"""C06 — the records of one transcript are gathered from all files through its pointers (VariantRecordPoolOnDisk.__getitem__),
and collections gathered through sets leave in a defined order (both filter_variants, TranscriptionalVariantSeries.sort)."""
from __future__ import annotations
import types
import z3
from pyvc.contract import Contract, register
from pyvc.core import Unsupported
from pyvc.interp import PyRaise
from pyvc.interp import LoopSpec
from pyvc.values import *

POD = 'moPepGen/seqvar/VariantRecordPoolOnDisk.py'
I_, B_ = z3.IntSort(), z3.BoolSort()


def zz(i):
    return i if is_z3(i) else z3.IntVal(i)


def acc_len(v):
    if isinstance(v, list) and not v:
        return z3.IntVal(0)
    if isinstance(v, _Accum):
        return v.n
    return None


class _Loaded:
    """what pointer.load() of pointer number idx returned"""
    def __init__(self, idx):
        self.idx = idx

    def sym_binop(self, I, op, other, reflected):
        n = acc_len(other)
        if op == '+' and reflected and n is not None:
            I.e.prove('C06/getitem/records-of-the-pointers-are-concatenated-in-pointer-order', self.idx == n)
            return _Accum(n + 1)
        return NotImplemented


class _Accum:
    """the concatenation of the loads of pointers 0 .. n-1"""
    def __init__(self, n):
        self.n = n

    def sym_iadd(self, I, v):
        I.e.prove('C06/getitem/records-of-the-pointers-are-concatenated-in-pointer-order', isinstance(v, _Loaded) and v.idx == self.n)
        return _Accum(self.n + 1)


class _Distinct:
    """set(records): the distinct records, iterated in an order the hash seed decides"""
    def __init__(self, owner, acc):
        self.owner, self.acc = owner, acc

    def sym_view(self, I):
        st = self.owner._cur
        return FnView(st.nrec, st.record, tag='distinct records')


class _GList:
    """a list of the series: appends and sorts are logged"""
    def __init__(self, owner, name):
        self.owner, self.name = owner, name

    def sym_method(self, I, name, a, k):
        if name == 'append':
            self.owner._cur.log.append(('append', self.name, a[0]))
            return None
        if name == 'sort':
            self.owner._cur.log.append(('sort', self.name, bool(a or k)))
            return None
        raise Unsupported(f'series.{self.name}.{name}')


class _Cache:
    """cached_seqs: transcript id -> transcript sequence, filled by to_transcript_variant of fusions"""
    def sym_contains(self, I, key):
        return I.e.bool('sequence_is_cached')

    def sym_getitem(self, I, key):
        return SymObj('TxSeq06b', of=key, origin='cache')


@register
class GetItemSeries(Contract):
    """pool[key]: the records of every pointer of the key are loaded (each pointer once, all of them, in order), duplicates removed, and every
    distinct record goes to exactly one place: a circRNA to circ_rna; a fusion - after its breakpoint was moved to the closest exon - converted
    with the annotation, genome and its own transcript id to fusion; a record spanning a splice site nowhere; every other record converted to
    transcript coordinates to transcriptional (a deletion shifted up against the sequence of its own transcript, taken from the cache or from the
    chromosome of that transcript), or unconverted to intronic exactly when the conversion reports an intronic index; any other conversion
    error propagates. The three sortable lists are sorted after the last record was filed, so the series does not depend on the set order."""
    path, qualname, props = POD, 'VariantRecordPoolOnDisk.__getitem__', ('C06',)
    declared_raises = ['ValueError']
    assumptions = ('assumed contracts: GVFPointer.load (records of the byte range; round trip under C13), VariantRecord.to_transcript_variant / '
                   'shift_breakpoint_to_closest_exon / is_spanning_over_splicing_site / shift_deletion_up (coordinates: C11, C15); a cache entry '
                   'under a transcript id holds the sequence of that transcript; list.sort() orders records by location',)

    def setup(self, I):
        e = I.e
        st = types.SimpleNamespace(log=[], raised=None)
        st.nptr, st.nrec = e.int('n_pointers'), e.int('n_distinct_records')
        e.assume(st.nptr >= 1)
        e.assume(st.nrec >= 0)
        st.is_circ, st.is_fusion, st.spanning = (z3.Function(n, I_, B_) for n in ('rec_is_circ', 'rec_is_fusion', 'rec_spans_splice_site'))
        st.anno = SymObj('Anno06b', transcripts=types.SimpleNamespace(sym_getitem=lambda I2, key: SymObj('TxModel06b', key=key, transcript=SymObj('Tx06b', chrom=SymObj('Chrom06b', of=key)))))
        st.genome = SymObj('Genome06b')
        st.record = lambda i: SymObj('Rec06b', i=zz(i), transcript_id=SymObj('TxId06b', i=zz(i)))
        ptrs = types.SimpleNamespace(sym_getitem=lambda I2, key: FnView(st.nptr, lambda i: SymObj('GVFPointer', idx=zz(i)), tag='pointers of the key'))
        st.pool = SymObj('VariantRecordPoolOnDisk', pointers=ptrs, anno=st.anno, genome=st.genome, gvf_files=[], gvf_handles=[])
        st.args = [st.pool, SymObj('PoolKey06b')]
        self._cur = st
        return st

    @property
    def models(self):
        c = self

        def inst(reg):
            def load(I, o, a, k):
                c._cur.log.append(('load', o.fields['idx']))
                return _Loaded(o.fields['idx'])
            reg.method_('GVFPointer', 'load', load)

            def to_set(v):
                if isinstance(v, _Accum):
                    def mk(I, v):
                        I.e.prove('C06/getitem/every-pointer-of-the-key-was-loaded', v.n == c._cur.nptr)
                        return _Distinct(c, v)
                    return mk
                return None
            reg.set_hooks.append(to_set)
            reg.ctor_('TranscriptionalVariantSeries', lambda I, a, k: None if (a or k) else c.mk_series())
            reg.isinstance_hooks.append(lambda v, name: c._cur.is_circ(v.fields['i']) if v.cls == 'Rec06b' and name == 'CircRNAModel' else None)
            reg.method_('Rec06b', 'is_fusion', lambda I, o, a, k: c._cur.is_fusion(o.fields['i']))
            reg.method_('Rec06b', 'is_spanning_over_splicing_site', lambda I, o, a, k: (c._cur.log.append(('spanning?', o, a)), c._cur.spanning(o.fields['i']))[1])
            reg.method_('Rec06b', 'shift_breakpoint_to_closest_exon', lambda I, o, a, k: c._cur.log.append(('shift-breakpoint', o, a)))

            def to_tx(I, o, a, k):
                st = c._cur
                st.log.append(('convert', o, list(a)))
                if len(a) < 4:          # the conversion of a non-fusion record may fail
                    if I.e.branch(I.e.bool('conversion_fails'), 'conversion fails'):
                        m = I.repo.modules['moPepGen/__init__.py']
                        msg = I.eval_const(m, m.consts['ERROR_INDEX_IN_INTRON']) if I.e.branch(I.e.bool('index_in_intron'), 'intron') else 'another conversion error'
                        exc = SymExc('ValueError', [msg])
                        st.raised = (o, msg, exc)
                        raise PyRaise(exc)
                typ = 'Deletion' if I.e.branch(I.e.bool('is_deletion'), 'deletion') else 'SNV'
                return SymObj('TxRec06b', of=o, type=typ)
            reg.method_('Rec06b', 'to_transcript_variant', to_tx)
            reg.method_('TxRec06b', 'shift_deletion_up', lambda I, o, a, k: c._cur.log.append(('shift-deletion', o, a)))

            def get_seq(I, o, a, k):
                c._cur.log.append(('tx-sequence', o, a))
                return SymObj('TxSeq06b', of=o.fields['key'], origin='genome')
            reg.method_('TxModel06b', 'get_transcript_sequence', get_seq)
            reg.protocol_('Genome06b', '__getitem__', lambda I, o, key: SymObj('ChromSeq06b', chrom=key))
        return (inst,)

    def mk_series(self):
        st = self._cur
        st.series = SymObj('TranscriptionalVariantSeries', **{n: _GList(self, n) for n in ('transcriptional', 'intronic', 'fusion', 'circ_rna')})
        return st.series

    # ---- loop 0: the pointers of the key
    def head0(self, I, env, k):
        self._cur.mark = len(self._cur.log)

    def step0(self, I, env, k):
        st = self._cur
        new = st.log[st.mark:]
        ok = len(new) == 1 and new[0][0] == 'load'
        return [('pointer-k-loaded-exactly-once', new[0][1] == k if ok else False)]

    def havoc0(self, I, env, k):
        env['records'] = _Accum(k)

    def inv0(self, I, env, k):
        n = acc_len(env['records'])
        return [('records-hold-the-loads-of-the-first-k-pointers', n == k if n is not None else False)]

    # ---- loop 1: the distinct records
    def havoc1(self, I, env, k):
        env['cached_seqs'] = _Cache()

    def head1(self, I, env, k):
        st = self._cur
        st.mark = len(st.log)
        st.raised = None

    def classify(self, I, k, new, raised):
        """obligations on what one iteration (record k) did; `raised`: the conversion error that left the loop, if any"""
        st = self._cur
        rec_ok = lambda o: isinstance(o, SymObj) and o.cls == 'Rec06b' and o.fields['i'] is not None
        idx = lambda o: o.fields['i']
        appends = [x for x in new if x[0] == 'append']
        items = []
        circ, fus, span = st.is_circ(k), st.is_fusion(k), st.spanning(k)
        own_tx = lambda o, t: isinstance(t, SymObj) and t is o.fields['transcript_id']
        # what was done, as formulas over the classification of record k
        if len(appends) > 1:
            return [('a-record-is-filed-at-most-once', False)]
        where = appends[0][1] if appends else None
        what = appends[0][2] if appends else None
        convs = [x for x in new if x[0] == 'convert']
        if where == 'circ_rna':
            items.append(('circ_rna-gets-exactly-the-circRNA-records', z3.And(circ, idx(what) == k) if rec_ok(what) else False))
        elif where == 'fusion':
            good = (len(convs) == 1 and isinstance(what, SymObj) and what.cls == 'TxRec06b' and what.fields['of'] is convs[0][1] and rec_ok(convs[0][1])
                    and len(convs[0][2]) == 4 and convs[0][2][0] is st.anno and convs[0][2][1] is st.genome and own_tx(convs[0][1], convs[0][2][2])
                    and isinstance(convs[0][2][3], (_Cache, dict)))
            shifted = [j for j, x in enumerate(new) if x[0] == 'shift-breakpoint' and x[1] is convs[0][1] and len(x[2]) == 1 and x[2][0] is st.anno] if good else []
            good = good and len(shifted) == 1 and shifted[0] < new.index(convs[0])
            items.append(('fusion-gets-the-fusion-records-converted-after-the-breakpoint-shift', z3.And(z3.Not(circ), fus, idx(convs[0][1]) == k) if good else False))
        elif where == 'transcriptional':
            good = (len(convs) == 1 and isinstance(what, SymObj) and what.cls == 'TxRec06b' and what.fields['of'] is convs[0][1] and rec_ok(convs[0][1])
                    and len(convs[0][2]) == 3 and convs[0][2][0] is st.anno and convs[0][2][1] is st.genome and own_tx(convs[0][1], convs[0][2][2]))
            if good:
                rec = convs[0][1]
                shifts = [x for x in new if x[0] == 'shift-deletion']
                if what.fields['type'] == 'Deletion':
                    sgood = len(shifts) == 1 and shifts[0][1] is what and len(shifts[0][2]) == 1 and isinstance(shifts[0][2][0], SymObj) \
                        and shifts[0][2][0].cls == 'TxSeq06b' and shifts[0][2][0].fields['of'] is rec.fields['transcript_id']
                    if sgood and shifts[0][2][0].fields['origin'] == 'genome':
                        seqs = [x for x in new if x[0] == 'tx-sequence']
                        sgood = len(seqs) == 1 and seqs[0][1].fields['key'] is rec.fields['transcript_id'] and len(seqs[0][2]) == 1 \
                            and isinstance(seqs[0][2][0], SymObj) and seqs[0][2][0].cls == 'ChromSeq06b' \
                            and isinstance(seqs[0][2][0].fields['chrom'], SymObj) and seqs[0][2][0].fields['chrom'].fields.get('of') is rec.fields['transcript_id']
                    items.append(('a-deletion-is-shifted-up-against-the-sequence-of-its-own-transcript', sgood))
                else:
                    items.append(('only-deletions-are-shifted', not shifts))
            items.append(('transcriptional-gets-the-other-records-converted-with-their-own-transcript', z3.And(z3.Not(circ), z3.Not(fus), z3.Not(span), idx(convs[0][1]) == k) if good else False))
        elif where == 'intronic':
            good = rec_ok(what) and len(convs) == 1 and convs[0][1] is what and st.raised is not None and st.raised[0] is what
            items.append(('intronic-gets-the-unconverted-record-exactly-when-the-conversion-reports-an-intronic-index',
                          z3.And(z3.Not(circ), z3.Not(fus), z3.Not(span), idx(what) == k) if good and st.raised[1] != 'another conversion error' else False))
        else:
            # nothing filed: only a record spanning a splice site, or a conversion error that propagates
            if raised is not None:
                items.append(('only-other-conversion-errors-propagate', raised[1] == 'another conversion error'))
            else:
                items.append(('a-record-is-dropped-only-when-it-spans-a-splice-site', z3.And(z3.Not(circ), z3.Not(fus), span)))
        return items

    def step1(self, I, env, k):
        st = self._cur
        return self.classify(I, k, st.log[st.mark:], None)

    @property
    def loops(self):
        U = dict(target_after='unknown')
        return {0: LoopSpec(inv=self.inv0, havoc=self.havoc0, on_head=self.head0, step=self.step0, on_break=lambda I, env, k: [('every-pointer-is-loaded', False)], **U),
                1: LoopSpec(inv=lambda I, env, k: [], havoc=self.havoc1, on_head=self.head1, step=self.step1,
                            on_break=lambda I, env, k: [('every-distinct-record-is-visited', False)],
                            on_exit=lambda I, env, n: [('all-distinct-records-were-visited', n == self._cur.nrec)], **U)}

    def post_return(self, I, st, ret):
        e = I.e
        e.prove('C06/getitem/returns-the-series-it-filled', ret is getattr(st, 'series', None))
        for nm in ('transcriptional', 'intronic', 'fusion'):
            sorts = [j for j, x in enumerate(st.log) if x[0] == 'sort' and x[1] == nm and not x[2]]
            apps = [j for j, x in enumerate(st.log) if x[0] == 'append' and x[1] == nm]
            e.prove(f'C06/getitem/{nm}-sorted-after-the-last-record-was-filed', bool(sorts) and (not apps or max(sorts) > max(apps)))

    def post_raise(self, I, st, exc):
        ok = st.raised is not None and exc is st.raised[2]
        I.e.prove('C06/getitem/raise/only-a-conversion-error-other-than-the-intronic-index', ok and st.raised[1] == 'another conversion error')


class _SeriesList:
    def __init__(self, owner, name):
        self.owner, self.name = owner, name

    def sym_method(self, I, name, a, k):
        self.owner._cur.log.append((name, self.name, bool(a or k)))
        if name == 'sort':
            return None
        raise Unsupported(f'{self.name}.{name}')


@register
class SeriesSort(Contract):
    """TranscriptionalVariantSeries.sort sorts the transcriptional, intronic and fusion lists by the records' own order and does nothing else"""
    path, qualname, props = POD, 'TranscriptionalVariantSeries.sort', ('C06',)
    assumptions = ('list.sort() orders records by location (VariantRecord ordering)',)

    def setup(self, I):
        st = types.SimpleNamespace(log=[])
        st.args = [SymObj('TranscriptionalVariantSeries', **{n: _SeriesList(self, n) for n in ('transcriptional', 'intronic', 'fusion', 'circ_rna')})]
        self._cur = st
        return st

    def post_return(self, I, st, ret):
        I.e.prove('C06/series.sort/the-three-record-lists-sorted-by-their-own-order',
                  sorted(st.log) == sorted(('sort', n, False) for n in ('transcriptional', 'intronic', 'fusion')))


NATIVE = []
