"""C06 — the records of one transcript are gathered from all files through its pointers (VariantRecordPoolOnDisk.__getitem__),
and collections gathered through sets leave in a defined order (both filter_variants, TranscriptionalVariantSeries.sort)."""
from __future__ import annotations
import types
import z3
from pyvc.contract import Contract, register
from pyvc.core import Unsupported
from pyvc.interp import PyRaise
from pyvc.interp import LoopSpec
from pyvc.values import *
from pyvc.values import Builtin

POD = 'moPepGen/seqvar/VariantRecordPoolOnDisk.py'
I_, B_ = z3.IntSort(), z3.BoolSort()


def zz(i):
    return i if is_z3(i) else z3.IntVal(i)


def acc_len(v):
    if isinstance(v, list) and not v:
        return z3.IntVal(0)
    if isinstance(v, _Accum):
        return v.n
    return None


class _Loaded:
    """what pointer.load() of pointer number idx returned"""
    def __init__(self, idx):
        self.idx = idx

    def sym_binop(self, I, op, other, reflected):
        n = acc_len(other)
        if op == '+' and reflected and n is not None:
            I.e.prove('C06/getitem/records-of-the-pointers-are-concatenated-in-pointer-order', self.idx == n)
            return _Accum(n + 1)
        return NotImplemented


class _Accum:
    """the concatenation of the loads of pointers 0 .. n-1"""
    def __init__(self, n):
        self.n = n

    def sym_iadd(self, I, v):
        I.e.prove('C06/getitem/records-of-the-pointers-are-concatenated-in-pointer-order', isinstance(v, _Loaded) and v.idx == self.n)
        return _Accum(self.n + 1)


class _Distinct:
    """set(records): the distinct records, iterated in an order the hash seed decides"""
    def __init__(self, owner, acc):
        self.owner, self.acc = owner, acc

    def sym_view(self, I):
        st = self.owner._cur
        return FnView(st.nrec, st.record, tag='distinct records')


class _GList:
    """a list of the series: appends and sorts are logged"""
    def __init__(self, owner, name):
        self.owner, self.name = owner, name

    def sym_method(self, I, name, a, k):
        if name == 'append':
            self.owner._cur.log.append(('append', self.name, a[0]))
            return None
        if name == 'sort':
            self.owner._cur.log.append(('sort', self.name, bool(a or k)))
            return None
        raise Unsupported(f'series.{self.name}.{name}')


class _Cache:
    """cached_seqs: transcript id -> transcript sequence, filled by to_transcript_variant of fusions"""
    def sym_contains(self, I, key):
        return I.e.bool('sequence_is_cached')

    def sym_getitem(self, I, key):
        return SymObj('TxSeq06b', of=key, origin='cache')


@register
class GetItemSeries(Contract):
    """pool[key]: the records of every pointer of the key are loaded (each pointer once, all of them, in order), duplicates removed, and every
    distinct record goes to exactly one place: a circRNA to circ_rna; a fusion - after its breakpoint was moved to the closest exon - converted
    with the annotation, genome and its own transcript id to fusion; a record spanning a splice site nowhere; every other record converted to
    transcript coordinates to transcriptional (a deletion shifted up against the sequence of its own transcript, taken from the cache or from the
    chromosome of that transcript), or unconverted to intronic exactly when the conversion reports an intronic index; any other conversion
    error propagates. The three sortable lists are sorted after the last record was filed, so the series does not depend on the set order."""
    path, qualname, props = POD, 'VariantRecordPoolOnDisk.__getitem__', ('C06',)
    declared_raises = ['ValueError']
    assumptions = ('assumed contracts: GVFPointer.load (records of the byte range; round trip under C13), VariantRecord.to_transcript_variant / '
                   'shift_breakpoint_to_closest_exon / is_spanning_over_splicing_site / shift_deletion_up (coordinates: C11, C15); a cache entry '
                   'under a transcript id holds the sequence of that transcript; list.sort() orders records by location',)

    def setup(self, I):
        e = I.e
        st = types.SimpleNamespace(log=[], raised=None)
        st.nptr, st.nrec = e.int('n_pointers'), e.int('n_distinct_records')
        e.assume(st.nptr >= 1)
        e.assume(st.nrec >= 0)
        st.is_circ, st.is_fusion, st.spanning = (z3.Function(n, I_, B_) for n in ('rec_is_circ', 'rec_is_fusion', 'rec_spans_splice_site'))
        st.anno = SymObj('Anno06b', transcripts=types.SimpleNamespace(sym_getitem=lambda I2, key: SymObj('TxModel06b', key=key, transcript=SymObj('Tx06b', chrom=SymObj('Chrom06b', of=key)))))
        st.genome = SymObj('Genome06b')
        st.record = lambda i: SymObj('Rec06b', i=zz(i), transcript_id=SymObj('TxId06b', i=zz(i)))
        ptrs = types.SimpleNamespace(sym_getitem=lambda I2, key: FnView(st.nptr, lambda i: SymObj('GVFPointer', idx=zz(i)), tag='pointers of the key'))
        st.pool = SymObj('VariantRecordPoolOnDisk', pointers=ptrs, anno=st.anno, genome=st.genome, gvf_files=[], gvf_handles=[])
        st.args = [st.pool, SymObj('PoolKey06b')]
        self._cur = st
        return st

    @property
    def models(self):
        c = self

        def inst(reg):
            def load(I, o, a, k):
                c._cur.log.append(('load', o.fields['idx']))
                return _Loaded(o.fields['idx'])
            reg.method_('GVFPointer', 'load', load)

            def to_set(v):
                if isinstance(v, _Accum):
                    def mk(I, v):
                        I.e.prove('C06/getitem/every-pointer-of-the-key-was-loaded', v.n == c._cur.nptr)
                        return _Distinct(c, v)
                    return mk
                return None
            reg.set_hooks.append(to_set)
            reg.ctor_('TranscriptionalVariantSeries', lambda I, a, k: None if (a or k) else c.mk_series())
            reg.isinstance_hooks.append(lambda v, name: c._cur.is_circ(v.fields['i']) if v.cls == 'Rec06b' and name == 'CircRNAModel' else None)
            reg.method_('Rec06b', 'is_fusion', lambda I, o, a, k: c._cur.is_fusion(o.fields['i']))
            reg.method_('Rec06b', 'is_spanning_over_splicing_site', lambda I, o, a, k: (c._cur.log.append(('spanning?', o, a)), c._cur.spanning(o.fields['i']))[1])
            reg.method_('Rec06b', 'shift_breakpoint_to_closest_exon', lambda I, o, a, k: c._cur.log.append(('shift-breakpoint', o, a)))

            def to_tx(I, o, a, k):
                st = c._cur
                st.log.append(('convert', o, list(a)))
                if len(a) < 4:          # the conversion of a non-fusion record may fail
                    if I.e.branch(I.e.bool('conversion_fails'), 'conversion fails'):
                        m = I.repo.modules['moPepGen/__init__.py']
                        msg = I.eval_const(m, m.consts['ERROR_INDEX_IN_INTRON']) if I.e.branch(I.e.bool('index_in_intron'), 'intron') else 'another conversion error'
                        exc = SymExc('ValueError', [msg])
                        st.raised = (o, msg, exc)
                        raise PyRaise(exc)
                typ = 'Deletion' if I.e.branch(I.e.bool('is_deletion'), 'deletion') else 'SNV'
                return SymObj('TxRec06b', of=o, type=typ)
            reg.method_('Rec06b', 'to_transcript_variant', to_tx)
            reg.method_('TxRec06b', 'shift_deletion_up', lambda I, o, a, k: c._cur.log.append(('shift-deletion', o, a)))

            def get_seq(I, o, a, k):
                c._cur.log.append(('tx-sequence', o, a))
                return SymObj('TxSeq06b', of=o.fields['key'], origin='genome')
            reg.method_('TxModel06b', 'get_transcript_sequence', get_seq)
            reg.protocol_('Genome06b', '__getitem__', lambda I, o, key: SymObj('ChromSeq06b', chrom=key))
        return (inst,)

    def mk_series(self):
        st = self._cur
        st.series = SymObj('TranscriptionalVariantSeries', **{n: _GList(self, n) for n in ('transcriptional', 'intronic', 'fusion', 'circ_rna')})
        return st.series

    # ---- loop 0: the pointers of the key
    def head0(self, I, env, k):
        self._cur.mark = len(self._cur.log)

    def step0(self, I, env, k):
        st = self._cur
        new = st.log[st.mark:]
        ok = len(new) == 1 and new[0][0] == 'load'
        return [('pointer-k-loaded-exactly-once', new[0][1] == k if ok else False)]

    def havoc0(self, I, env, k):
        env['records'] = _Accum(k)

    def inv0(self, I, env, k):
        n = acc_len(env['records'])
        return [('records-hold-the-loads-of-the-first-k-pointers', n == k if n is not None else False)]

    # ---- loop 1: the distinct records
    def havoc1(self, I, env, k):
        env['cached_seqs'] = _Cache()

    def head1(self, I, env, k):
        st = self._cur
        st.mark = len(st.log)
        st.raised = None

    def classify(self, I, k, new, raised):
        """obligations on what one iteration (record k) did; `raised`: the conversion error that left the loop, if any"""
        st = self._cur
        rec_ok = lambda o: isinstance(o, SymObj) and o.cls == 'Rec06b' and o.fields['i'] is not None
        idx = lambda o: o.fields['i']
        appends = [x for x in new if x[0] == 'append']
        items = []
        circ, fus, span = st.is_circ(k), st.is_fusion(k), st.spanning(k)
        own_tx = lambda o, t: isinstance(t, SymObj) and t is o.fields['transcript_id']
        # what was done, as formulas over the classification of record k
        if len(appends) > 1:
            return [('a-record-is-filed-at-most-once', False)]
        where = appends[0][1] if appends else None
        what = appends[0][2] if appends else None
        convs = [x for x in new if x[0] == 'convert']
        if where == 'circ_rna':
            items.append(('circ_rna-gets-exactly-the-circRNA-records', z3.And(circ, idx(what) == k) if rec_ok(what) else False))
        elif where == 'fusion':
            good = (len(convs) == 1 and isinstance(what, SymObj) and what.cls == 'TxRec06b' and what.fields['of'] is convs[0][1] and rec_ok(convs[0][1])
                    and len(convs[0][2]) == 4 and convs[0][2][0] is st.anno and convs[0][2][1] is st.genome and own_tx(convs[0][1], convs[0][2][2])
                    and isinstance(convs[0][2][3], (_Cache, dict)))
            shifted = [j for j, x in enumerate(new) if x[0] == 'shift-breakpoint' and x[1] is convs[0][1] and len(x[2]) == 1 and x[2][0] is st.anno] if good else []
            good = good and len(shifted) == 1 and shifted[0] < new.index(convs[0])
            items.append(('fusion-gets-the-fusion-records-converted-after-the-breakpoint-shift', z3.And(z3.Not(circ), fus, idx(convs[0][1]) == k) if good else False))
        elif where == 'transcriptional':
            good = (len(convs) == 1 and isinstance(what, SymObj) and what.cls == 'TxRec06b' and what.fields['of'] is convs[0][1] and rec_ok(convs[0][1])
                    and len(convs[0][2]) == 3 and convs[0][2][0] is st.anno and convs[0][2][1] is st.genome and own_tx(convs[0][1], convs[0][2][2]))
            if good:
                rec = convs[0][1]
                shifts = [x for x in new if x[0] == 'shift-deletion']
                if what.fields['type'] == 'Deletion':
                    sgood = len(shifts) == 1 and shifts[0][1] is what and len(shifts[0][2]) == 1 and isinstance(shifts[0][2][0], SymObj) \
                        and shifts[0][2][0].cls == 'TxSeq06b' and shifts[0][2][0].fields['of'] is rec.fields['transcript_id']
                    if sgood and shifts[0][2][0].fields['origin'] == 'genome':
                        seqs = [x for x in new if x[0] == 'tx-sequence']
                        sgood = len(seqs) == 1 and seqs[0][1].fields['key'] is rec.fields['transcript_id'] and len(seqs[0][2]) == 1 \
                            and isinstance(seqs[0][2][0], SymObj) and seqs[0][2][0].cls == 'ChromSeq06b' \
                            and isinstance(seqs[0][2][0].fields['chrom'], SymObj) and seqs[0][2][0].fields['chrom'].fields.get('of') is rec.fields['transcript_id']
                    items.append(('a-deletion-is-shifted-up-against-the-sequence-of-its-own-transcript', sgood))
                else:
                    items.append(('only-deletions-are-shifted', not shifts))
            items.append(('transcriptional-gets-the-other-records-converted-with-their-own-transcript', z3.And(z3.Not(circ), z3.Not(fus), z3.Not(span), idx(convs[0][1]) == k) if good else False))
        elif where == 'intronic':
            good = rec_ok(what) and len(convs) == 1 and convs[0][1] is what and st.raised is not None and st.raised[0] is what
            items.append(('intronic-gets-the-unconverted-record-exactly-when-the-conversion-reports-an-intronic-index',
                          z3.And(z3.Not(circ), z3.Not(fus), z3.Not(span), idx(what) == k) if good and st.raised[1] != 'another conversion error' else False))
        else:
            # nothing filed: only a record spanning a splice site, or a conversion error that propagates
            if raised is not None:
                items.append(('only-other-conversion-errors-propagate', raised[1] == 'another conversion error'))
            else:
                items.append(('a-record-is-dropped-only-when-it-spans-a-splice-site', z3.And(z3.Not(circ), z3.Not(fus), span)))
        return items

    def step1(self, I, env, k):
        st = self._cur
        return self.classify(I, k, st.log[st.mark:], None)

    @property
    def loops(self):
        U = dict(target_after='unknown')
        return {0: LoopSpec(inv=self.inv0, havoc=self.havoc0, on_head=self.head0, step=self.step0, on_break=lambda I, env, k: [('every-pointer-is-loaded', False)], **U),
                1: LoopSpec(inv=lambda I, env, k: [], havoc=self.havoc1, on_head=self.head1, step=self.step1,
                            on_break=lambda I, env, k: [('every-distinct-record-is-visited', False)],
                            on_exit=lambda I, env, n: [('all-distinct-records-were-visited', n == self._cur.nrec)], **U)}

    def post_return(self, I, st, ret):
        e = I.e
        e.prove('C06/getitem/returns-the-series-it-filled', ret is getattr(st, 'series', None))
        for nm in ('transcriptional', 'intronic', 'fusion'):
            sorts = [j for j, x in enumerate(st.log) if x[0] == 'sort' and x[1] == nm and not x[2]]
            apps = [j for j, x in enumerate(st.log) if x[0] == 'append' and x[1] == nm]
            e.prove(f'C06/getitem/{nm}-sorted-after-the-last-record-was-filed', bool(sorts) and (not apps or max(sorts) > max(apps)))

    def post_raise(self, I, st, exc):
        ok = st.raised is not None and exc is st.raised[2]
        I.e.prove('C06/getitem/raise/only-a-conversion-error-other-than-the-intronic-index', ok and st.raised[1] == 'another conversion error')


class _SeriesList:
    def __init__(self, owner, name):
        self.owner, self.name = owner, name

    def sym_method(self, I, name, a, k):
        self.owner._cur.log.append((name, self.name, bool(a or k)))
        if name == 'sort':
            return None
        raise Unsupported(f'{self.name}.{name}')


@register
class SeriesSort(Contract):
    """TranscriptionalVariantSeries.sort sorts the transcriptional, intronic and fusion lists by the records' own order and does nothing else"""
    path, qualname, props = POD, 'TranscriptionalVariantSeries.sort', ('C06',)
    assumptions = ('list.sort() orders records by location (VariantRecord ordering)',)

    def setup(self, I):
        st = types.SimpleNamespace(log=[])
        st.args = [SymObj('TranscriptionalVariantSeries', **{n: _SeriesList(self, n) for n in ('transcriptional', 'intronic', 'fusion', 'circ_rna')})]
        self._cur = st
        return st

    def post_return(self, I, st, ret):
        I.e.prove('C06/series.sort/the-three-record-lists-sorted-by-their-own-order',
                  sorted(st.log) == sorted(('sort', n, False) for n in ('transcriptional', 'intronic', 'fusion')))


# ----------------------------------------------------------------------------
# what set(records) merges: the identity of a variant record
# ----------------------------------------------------------------------------
VR = 'moPepGen/seqvar/VariantRecord.py'
# the fields that decide which variant a GVF record denotes (GVF documentation): position, alleles and type; the deleted / replaced range;
# the donor range of an insertion / substitution; the partner of a fusion
IDENTITY_ATTRS = ('START', 'END', 'DONOR_START', 'DONOR_END', 'ACCEPTER_TRANSCRIPT_ID', 'ACCEPTER_POSITION')


class _Attrs06r:
    def __init__(self, who):
        self.who, self.vals = who, {}

    def sym_method(self, I, name, a, k):
        if name == 'get' and isinstance(a[0], str):
            return self.sym_getitem(I, a[0])
        raise Unsupported(f'attrs.{name}')

    def sym_getitem(self, I, key):
        if key not in self.vals:
            self.vals[key] = SymObj('Field06r', who=self.who, name=key)
        return self.vals[key]

    def sym_contains(self, I, key):
        return I.e.bool(f'{self.who}_has_{key}')


@register
class RecordIdentity(Contract):
    """pool[key] removes duplicates with set(): two records are merged when their hashes agree and __eq__ holds. Records that differ in a
    field that decides which variant they denote - position, REF, ALT, type, the deleted / replaced range, the donor range, the partner
    transcript and position of a fusion - must stay apart, whatever files they come from and in whatever order: each such field is
    either compared by __eq__ or part of the hashed tuple"""
    path, qualname, props = VR, 'VariantRecord.__eq__', ('C06',)
    assumptions = ('assumed: hash() of a tuple separates tuples that differ in a component (no collisions); the attributes of equal fields compare equal',)

    def mk(self, I, who):
        at = _Attrs06r(who)
        return SymObj('VariantRecord', location=SymObj('Field06r', who=who, name='location', start=SymObj('Field06r', who=who, name='location.start'),
                                                      end=SymObj('Field06r', who=who, name='location.end')),
                      ref=SymObj('Field06r', who=who, name='ref'), alt=SymObj('Field06r', who=who, name='alt'), type=SymObj('Field06r', who=who, name='type'),
                      id=SymObj('Field06r', who=who, name='id'), attrs=at), at

    def setup(self, I):
        st = types.SimpleNamespace(eqs={}, hashed=None)
        st.a, st.attrs_a = self.mk(I, 'a')
        st.b, st.attrs_b = self.mk(I, 'b')
        st.args = [st.a, st.b]
        self._cur = st
        return st

    @property
    def models(self):
        c = self

        def inst(reg):
            def feq(I, x, y):
                st = c._cur
                if isinstance(y, SymObj) and y.cls == 'Field06r' and y.fields['name'] == x.fields['name'] and y.fields['who'] != x.fields['who']:
                    nm = x.fields['name']
                    if nm not in st.eqs:
                        st.eqs[nm] = I.e.bool(f'same_{nm}')
                    return st.eqs[nm]
                raise Unsupported(f'comparison of {x.fields["name"]} with {y!r}')
            reg.protocol_('Field06r', '__eq__', feq)

            def hash_(I, a, k):
                c._cur.hashed = list(a[0]) if isinstance(a[0], (tuple, list)) else [a[0]]
                return I.e.int('hash_value')
            reg.global_(VR, 'hash', Builtin('hash', hash_))
        return (inst,)

    def post_return(self, I, st, ret):
        e = I.e
        from pyvc.core import as_bool
        module, cls, fnode = I.repo.function_node(VR, 'VariantRecord.__hash__')
        I.inline(module, cls, fnode, [st.a], {}, qualname='VariantRecord.__hash__')
        hashed = st.hashed or []
        in_hash = lambda f: any(x is f for x in hashed)
        r = as_bool(ret) if not isinstance(ret, bool) else z3.BoolVal(ret)

        def separated(nm, field):
            # merged (eq holds and the hashes agree) only if this field agrees: compared by __eq__, or in the hashed tuple
            compared = z3.Implies(r, st.eqs[nm]) if nm in st.eqs else z3.Not(r)
            return z3.BoolVal(True) if in_hash(field) else compared
        loc = st.a.fields['location']
        e.prove('C06/record-identity/position-decides', z3.Or(separated('location', loc),
                                                              z3.And(separated('location.start', loc.fields['start']), separated('location.end', loc.fields['end']))))
        for nm in ('ref', 'alt', 'type'):
            e.prove(f'C06/record-identity/{nm}-decides', separated(nm, st.a.fields[nm]))
        for key in IDENTITY_ATTRS:
            e.prove(f'C06/record-identity/{key}-decides', separated(key, st.attrs_a.sym_getitem(I, key)))


@register
class PoolCopy(Contract):
    """copy.copy(pool) - what the fusion loop of callVariant narrows down per fusion - has its OWN table of series: storing a series under a
    transcript in the copy leaves the table of the original as it was (the table handed to the new pool is a copy of the old one, not the
    old one), and it is a pool of the same class over the same annotation"""
    path, qualname, props = 'moPepGen/seqvar/VariantRecordPool.py', 'VariantRecordPool.__copy__', ('C05', 'C06', 'C07')
    assumptions = ('assumed: copy.copy of a dict is a new dict with the same entries; copy.copy of the annotation is an annotation with the same content',)

    def setup(self, I):
        st = types.SimpleNamespace(made=None)
        st.data, st.anno = SymObj('SeriesTable06c'), SymObj('Anno06c')
        st.pool = SymObj('VariantRecordPool', data=st.data, anno=st.anno)
        st.args = [st.pool]
        self._cur = st
        return st

    @property
    def models(self):
        c = self

        def inst(reg):
            reg.ext_('copy.copy', lambda I, a, k: SymObj('CopyOf06c', of=a[0]))

            def ctor(I, a, k):
                names = ('data', 'anno')
                b = {**dict(zip(names, a)), **k}
                c._cur.made = b
                return SymObj('VariantRecordPool', data=b.get('data'), anno=b.get('anno'))
            reg.ctor_('VariantRecordPool', ctor)
        return (inst,)

    def post_return(self, I, st, ret):
        b = st.made or {}
        d, a = b.get('data'), b.get('anno')
        I.e.prove('C05/pool-copy/the-copy-has-its-own-table-of-series-with-the-same-entries', isinstance(d, SymObj) and d.cls == 'CopyOf06c' and d.fields['of'] is st.data)
        I.e.prove('C05/pool-copy/over-the-same-annotation', a is st.anno or (isinstance(a, SymObj) and a.cls == 'CopyOf06c' and a.fields['of'] is st.anno))
        I.e.prove('C05/pool-copy/a-pool-of-the-same-class', isinstance(ret, SymObj) and ret.cls == 'VariantRecordPool' and st.made is not None)


# ----------------------------------------------------------------------------
# the transcript rank that orders the dispatches (and the records the parsers write)
# ----------------------------------------------------------------------------
GAN = 'moPepGen/gtf/GenomicAnnotation.py'


class _RankDict:
    """the dict being filled: logs every assignment"""
    def __init__(self, st):
        self.st = st

    def sym_setitem(self, I, key, v):
        self.st.log.append((key, v))

    def sym_method(self, I, name, a, k):
        raise Unsupported(f'rank.{name}')


@register
class TranscriptRank(Contract):
    """GenomicAnnotation.get_transcript_rank(): the rank of the k-th transcript of the annotation (in the order the annotation holds them) is k plus a fixed
    number - every transcript gets exactly one rank and ranks increase by one per transcript, so sorting by rank is the annotation order and does not depend on anything else"""
    path, qualname, props = GAN, 'GenomicAnnotation.get_transcript_rank', ('C06',)

    def setup(self, I):
        e = I.e
        st = types.SimpleNamespace(log=[])
        st.n = e.int('n_transcripts')
        e.assume(st.n >= 0)
        zz = lambda i: i if is_z3(i) else z3.IntVal(i)
        st.keys = FnView(st.n, lambda i: SymObj('TxKey06b', i=zz(i)), tag='transcript ids of the annotation')
        st.anno = SymObj('GenomicAnnotation', transcripts=st.keys, genes=st.keys)
        st.args = [st.anno]
        self._cur = st
        return st

    def havoc(self, I, env, k):
        env.set('rank', _RankDict(self._cur))
        env.set('i', k + self._cur.c0)

    def inv(self, I, env, k):
        st = self._cur
        r = env.lookup('rank') if env.has('rank') else None
        i = env.lookup('i') if env.has('i') else None
        if isinstance(k, int) and k == 0:
            st.c0 = i if isinstance(i, int) else 0
            return [('rank-starts-empty-and-the-counter-at-a-fixed-number', z3.BoolVal(bool(r == {} and isinstance(i, int))))]
        return [('the-table-being-filled-is-returned-later', z3.BoolVal(isinstance(r, _RankDict))),
                ('counter-advances-by-one-per-transcript', i == k + st.c0 if is_z3(i) or isinstance(i, int) else False)]

    def head(self, I, env, k):
        self._cur.mark = len(self._cur.log)

    def step(self, I, env, k):
        st = self._cur
        new = st.log[st.mark:]
        ok = len(new) == 1 and isinstance(new[0][0], SymObj) and new[0][0].cls == 'TxKey06b'
        # the rank is the counter (before or after it advances: the code is the same in every iteration), so ranks increase by one per transcript
        v = new[0][1] if ok else None
        return [('transcript-k-and-nothing-else-is-ranked-and-its-rank-is-the-position-counter',
                 z3.And(new[0][0].fields['i'] == k, z3.Or(v == k + st.c0, v == k + st.c0 + 1)) if ok else False)]

    @property
    def loops(self):
        return {0: LoopSpec(inv=self.inv, havoc=self.havoc, on_head=self.head, step=self.step, target_after='unknown',
                            on_break=lambda I, env, k: [('every-transcript-is-ranked', False)],
                            on_exit=lambda I, env, n: [('all-transcripts-were-ranked', n == self._cur.n)])}

    def post_return(self, I, st, ret):
        I.e.prove('C06/rank/the-filled-table-is-returned', z3.BoolVal(isinstance(ret, _RankDict)))


@register
class GenesRank(TranscriptRank):
    """GenomicAnnotation.get_genes_rank(): as get_transcript_rank, over the genes of the annotation (the order in which the parsers write their records)"""
    qualname = 'GenomicAnnotation.get_genes_rank'


from pyvc.native import NativeCheck


class NativeFusionPartners(NativeCheck):
    name = 'fusion_partner_layouts'
    props = ('C06',)
    functions = (f'{VR}:VariantRecord.__eq__', f'{POD}:VariantRecordPoolOnDisk.__getitem__')
    bounded_for = ('file layout / file order independence for records that set() may merge: two fusions of one donor transcript at one breakpoint '
                   'with different partner transcripts, given as two files in both orders and as one file in both record orders')
    bound = 'demo reference; donor ENST00000622235.5 at gene position 1751, partners ENST00000614167.2 / ENST00000614168.2 at 4 (quick) or 12 positions'
    quick_budget_s = 120
    thorough_budget_s = 400

    def cases(self, rng, tier):
        for pos in ((396, 397, 400, 402) if tier == 'quick' else range(392, 404)):
            yield dict(accepter_position=pos)

    def check(self, inp):
        import tempfile, shutil, os
        from . import cv_run
        pos = inp['accepter_position']
        hdr = [l.rstrip('\n') for l in open(cv_run.DATA / 'fusion/fusion.gvf') if l.startswith('#')]

        def rec(acc):
            return ('ENSG00000244486.9\t1752\tFUSION-ENST00000622235.5:1751-%s:%d\tG\t<FUSION>\t.\t.\tTRANSCRIPT_ID=ENST00000622235.5;GENE_SYMBOL=SCARF2;'
                    'GENOMIC_POSITION=chr22:3213:3213;ACCEPTER_GENE_ID=ENSG00000128408.9;ACCEPTER_TRANSCRIPT_ID=%s;ACCEPTER_SYMBOL=RIBC2;ACCEPTER_POSITION=%d;'
                    'ACCEPTER_GENOMIC_POSITION=chr22:%d:%d') % (acc, pos - 1, acc, pos, pos, pos)
        ra, rb = rec('ENST00000614167.2'), rec('ENST00000614168.2')
        d = tempfile.mkdtemp(prefix='verif_c06_')
        try:
            def w(name, recs):
                path = os.path.join(d, name)
                with open(path, 'w') as fh:
                    fh.write('\n'.join(hdr + recs) + '\n')
                return path
            layouts = {'files A,B': [w('a.gvf', [ra]), w('b.gvf', [rb])], 'one file A,B': [w('ab.gvf', [ra, rb])], 'one file B,A': [w('ba.gvf', [rb, ra])]}
            layouts['files B,A'] = list(reversed(layouts['files A,B']))
            got = {}
            for nm, files in layouts.items():
                fasta, _ = cv_run.run_call_variant(gvfs=files)
                got[nm] = set(fasta.values())
            ref = got['files A,B']
            for nm, seqs in got.items():
                if seqs != ref:
                    return dict(call=f'callVariant on two fusions of ENST00000622235.5:1751 with partners ENST00000614167.2 / ENST00000614168.2 at {pos}: "files A,B" vs "{nm}"',
                                observed=dict(only_first=sorted(ref - seqs)[:5], only_second=sorted(seqs - ref)[:5], sizes={k: len(v) for k, v in got.items()}),
                                expected='the same peptide set for every layout of the same two records', signature='peptide-set-depends-on-the-layout-of-fusion-records')
        finally:
            shutil.rmtree(d, ignore_errors=True)
        return None

    def nontrivial(self, inp):
        return str(inp)


NATIVE = [NativeFusionPartners()]
