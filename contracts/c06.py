"""C06 (and parts of C04 / C07): dispatch loop of call_variant_peptide, caller_reducer.

The whole real function `call_variant_peptide` is executed symbolically.  Everything it
calls outside the loop logic is replaced by the assumed contracts below (each listed in
`assumptions`):  gather_data_for_call_variant(tx) -> d(tx) or None (uninterpreted),
caller_reducer / ParallelPool.map -> order preserving map of an uninterpreted r,
VariantPeptideTable -> ghost log of is_valid / add_peptide / write_fasta.
"""
from __future__ import annotations
import types
import z3
from pyvc.contract import Contract, Lemma, register
from pyvc.core import Unsupported, as_bool
from pyvc.interp import LoopSpec, PyRaise
from pyvc.symlist import SymList
from pyvc.values import *

CVP = 'moPepGen/cli/call_variant_peptide.py'
I_ = z3.IntSort()
B_ = z3.BoolSort()


def dlen(v):
    if isinstance(v, list):
        return z3.IntVal(len(v))
    return v.length


def draw(v, j):
    """raw tx index of the j-th pending dispatch"""
    if isinstance(v, list):
        raise Unsupported('concrete pending list with symbolic index')
    return v.arr[j]


@register
class DispatchLoop(Contract):
    path, qualname, props = CVP, 'call_variant_peptide', ('C06', 'C04', 'C07')
    max_paths = 3000
    assumptions = (
        'assumed: VariantPeptideCaller.gather_data_for_call_variant(tx) returns d(tx) or None, a function of the transcript only (its own contract: GatherData)',
        'assumed: ParallelPool.map(caller_reducer, xs) = [r(x) for x in xs] in order (pathos), caller_reducer pure per dispatch',
        'assumed: VariantPeptideCaller.load_reference / create_in_disk_variant_pool / write_dgraphs / write_pgraphs do not touch the loop state (havoc, frame)',
        'assumed: sorted(pool.pointers.keys(), key=rank) is a list of the transcripts with variants (length N >= 0)',
    )

    # ------------------------------------------------------------------ setup
    def setup(self, I):
        e = I.e
        st = types.SimpleNamespace()
        st.N = e.int('N')
        st.threads = e.int('threads')
        st.valid_log, st.add_log = [], []
        st.isnone = z3.Function('isnone', I_, B_)
        st.flag = [z3.Function(f'flag{j}', I_, B_) for j in range(3)]
        st.npep = z3.Function('npep', I_, I_)
        st.nlab = z3.Function('nlab', I_, I_, I_)
        st.cnt = z3.Function('cnt', I_, I_)
        j = z3.Int('cj')
        e.assume(st.N >= 0)
        e.assume(st.threads >= 1)
        e.assume(st.cnt(0) == 0)
        e.assume(z3.ForAll([j], z3.Implies(j >= 0, st.cnt(j + 1) == st.cnt(j) + z3.If(st.isnone(j), 0, 1)),
                           patterns=[st.cnt(j + 1)]))
        e.assume(z3.ForAll([j], st.npep(j) >= 0))
        j2 = z3.Int('cj2')
        e.assume(z3.ForAll([j, j2], st.nlab(j, j2) >= 0))
        st.G = types.SimpleNamespace(app=z3.Array('app0', I_, I_), n_app=z3.IntVal(0),
                                     n_flushed=z3.IntVal(0), fasta_written=0, header_written=0,
                                     last_valid=None, added_after_load=False, raised_in_dispatch=False)
        st.args = [SymObj('Namespace')]
        st.skip_failed = e.bool('skip_failed')
        self._cur = st
        return st

    # ------------------------------------------------------------------ models
    @property
    def models(self):
        return (self.install_models,)

    def install_models(self, reg):
        c = self
        G = lambda: c._cur.G

        def mk_caller(I, args, kwargs):
            st = c._cur
            canon = SymObj('CanonicalPool')
            anno = SymObj('AnnoStub')
            ref = SymObj('ReferenceData', anno=anno, canonical_peptides=canon, genome=SymObj('Genome'))
            pool = SymObj('VariantRecordPoolOnDisk', gvf_files=[], pointers=SymObj('Pointers'))
            gdir = None if I.e.branch(I.e.bool('no_graph_dir'), 'graph_dir') else OpaqueStr(['graphdir'])
            caller = SymObj('VariantPeptideCaller', args=args[0], threads=st.threads,
                            cleavage_params=SymObj('CleavageParams'), graph_output_dir=gdir,
                            reference_data=ref, variant_record_pool=pool, tally=None, logger=None,
                            peptide_table_output_path=OpaqueStr(['table']), output_path=OpaqueStr(['fasta']))
            st.caller, st.ref, st.canon = caller, ref, canon
            return caller
        reg.ctor_('VariantPeptideCaller', mk_caller)
        noop = lambda I, o, a, k: None
        for m in ('load_reference', 'create_in_disk_variant_pool', 'write_dgraphs', 'write_pgraphs'):
            reg.method_('VariantPeptideCaller', m, noop)
        reg.func_('moPepGen/cli/common.py', 'print_start_message', lambda I, a, k: None)

        def gather(I, caller, args, kwargs):
            st = c._cur
            tx = args[0]
            if not (isinstance(tx, SymObj) and tx.cls == 'TxId'):
                raise Unsupported('gather_data_for_call_variant called with something that is not an element of tx_sorted')
            k = tx.fields['idx']
            if I.e.branch(st.isnone(k), 'gather:None'):
                return None
            return SymObj('Dispatch', idx=k)
        reg.method_('VariantPeptideCaller', 'gather_data_for_call_variant', gather)

        reg.ext_('contextlib.ExitStack', lambda I, a, k: SymObj('ExitStack'))
        reg.ext_('ExitStack', lambda I, a, k: SymObj('ExitStack'))

        def enter_context(I, o, a, k):
            x = a[0]
            if isinstance(x, SymObj) and x.cls == 'Opener':
                return x.fields['pool']
            return x
        reg.method_('ExitStack', 'enter_context', enter_context)
        reg.ctor_('VariantRecordPoolOnDiskOpener', lambda I, a, k: SymObj('Opener', pool=a[0]))
        reg.ext_('open', lambda I, a, k: SymObj('File'))

        # ---- peptide table: ghost log
        def mk_table(I, a, k):
            t = SymObj('VariantPeptideTable', index=SymObj('TableIndex'), handle=a[0] if a else None)
            c._cur.table = t
            return t
        reg.ctor_('VariantPeptideTable', mk_table)

        def write_header(I, o, a, k):
            G().header_written += 1
        reg.method_('VariantPeptideTable', 'write_header', write_header)

        def is_valid(I, o, a, k):
            st = c._cur
            seq = k.get('seq', a[0] if a else None)
            canon = k.get('canonical_peptides', a[1] if len(a) > 1 else None)
            cp = k.get('cleavage_params', a[2] if len(a) > 2 else None)
            I.e.prove('C04/is_valid/uses-global-canonical-pool', canon is st.canon)
            I.e.prove('C04/is_valid/uses-run-cleavage-params', cp is st.caller.fields['cleavage_params'])
            b = I.e.bool('valid')
            G().last_valid = (seq, b)
            c._cur.valid_log.append(seq)
            return b
        reg.method_('VariantPeptideTable', 'is_valid', is_valid)

        def add_peptide(I, o, a, k):
            seq = a[0]
            lv = G().last_valid
            I.e.prove('C04/add_peptide/guarded-by-is_valid-of-the-same-peptide',
                      z3.And(lv is not None and lv[0] is seq, lv[1] if lv is not None else False))
            I.e.prove('C04/add_peptide/before-fasta', G().fasta_written == 0)
            lab = a[1]
            c._cur.add_log.append((seq, lab))
            I.e.prove('C04/add_peptide/label-belongs-to-peptide',
                      isinstance(lab, SymObj) and lab.cls == 'Label' and isinstance(seq, SymObj)
                      and lab.fields['d'] is seq.fields['d'] and lab.fields['m'] is seq.fields['m'])
            return None
        reg.method_('VariantPeptideTable', 'add_peptide', add_peptide)

        def write_fasta(I, o, a, k):
            I.e.prove('C04/write_fasta/to-output-path', a and a[0] is c._cur.caller.fields['output_path'])
            G().fasta_written += 1
        reg.method_('VariantPeptideTable', 'write_fasta', write_fasta)
        reg.protocol_('TableIndex', '__len__', lambda I, o: I.e.int('n_index'))

        reg.method_('AnnoStub', 'get_transcript_rank', lambda I, o, a, k: SymObj('Rank'))
        reg.method_('Pointers', 'keys', lambda I, o, a, k: SymObj('PointerKeys'))

        def sorted_hook(I, v, kw):
            if isinstance(v, SymObj) and v.cls == 'PointerKeys':
                st = c._cur
                return FnView(st.N, lambda i: SymObj('TxId', idx=i if is_z3(i) else z3.IntVal(i)), tag='tx_sorted')
            return None
        reg.sorted_hooks.append(sorted_hook)

        reg.ext_('pathos.pools.ParallelPool', lambda I, a, k: SymObj('ParallelPool', ncpus=k.get('ncpus')))

        def result_of(I, d):
            st = c._cur
            pa = SymObj('PepAnno', d=d)
            return (pa, SymObj('TxId', idx=d), SymObj('DGraphs'), SymObj('PGraphs'),
                    (st.flag[0](d), st.flag[1](d), st.flag[2](d)))
        c.result_of = result_of

        def may_raise(I):
            if I.e.branch(I.e.bool('dispatch_raises'), 'dispatch raises'):
                G().raised_in_dispatch = True
                raise PyRaise(SymExc('<any>', ['failure inside a dispatch']))

        def pool_map(I, o, a, k):
            st = c._cur
            fn, xs = a[0], a[1]
            I.e.prove('C06/map/worker-is-caller_reducer', isinstance(fn, RepoFunc) and fn.node.name == 'caller_reducer')
            I.e.prove('C06/map/whole-pending-batch', xs is I._c06_env['dispatches'])
            may_raise(I)
            g = G()
            base = g.n_flushed
            n = dlen(xs)
            g.n_flushed = base + n
            arr = xs.arr if not isinstance(xs, list) else None
            return FnView(n, lambda j: result_of(I, arr[j]), tag='results')
        reg.method_('ParallelPool', 'map', pool_map)

        def reducer(I, a, k):
            st = c._cur
            d = a[0]
            g = G()
            I.e.prove('C06/reducer/argument-is-a-dispatch', isinstance(d, SymObj) and d.cls == 'Dispatch')
            pend = I._c06_env['dispatches']
            I.e.prove('C06/reducer/single-thread-batch-has-exactly-one', dlen(pend) == 1)
            I.e.prove('C06/reducer/dispatch-is-next-in-order', d.fields['idx'] == g.app[g.n_flushed])
            may_raise(I)
            g.n_flushed = g.n_flushed + 1
            return result_of(I, d.fields['idx'])
        reg.func_(CVP, 'caller_reducer', reducer)

        reg.protocol_('PepAnno', '__len__', lambda I, o: c._cur.npep(o.fields['d']))

        def pep_iter(I, o):
            d = o.fields['d']
            cache = {}
            def get(m):
                key = z3.simplify(m if is_z3(m) else z3.IntVal(m)).sexpr()
                if key not in cache:
                    cache[key] = SymObj('Peptide', d=d, m=m)
                return cache[key]
            return FnView(c._cur.npep(d), get, tag='peptides')
        reg.protocol_('PepAnno', '__iter__', pep_iter)

        def pep_labels(I, o, key):
            if not (isinstance(key, SymObj) and key.cls == 'Peptide' and key.fields['d'] is o.fields['d']):
                I.raise_('KeyError', 'peptide not in this peptide_anno')
            d, m = key.fields['d'], key.fields['m']
            return FnView(c._cur.nlab(d, m), lambda t: SymObj('Label', d=d, m=m, t=t), tag='labels')
        reg.protocol_('PepAnno', '__getitem__', pep_labels)

        def pep_items(I, o, a, k):
            peps = pep_iter(I, o)
            return FnView(peps.length(), lambda m: (peps.get(m), pep_labels(I, o, peps.get(m))), tag='peptide items')
        reg.method_('PepAnno', 'items', pep_items)
        reg.method_('PepAnno', 'keys', lambda I, o, a, k: pep_iter(I, o))
        reg.protocol_('PepAnno', '__bool__', lambda I, o: c._cur.npep(o.fields['d']) > 0)

    # ------------------------------------------------------------------ loops
    def havoc_tally(self, I, env):
        # frame: only the tally fields the loop body stores to (syntactic scan) are havocked
        t = self._cur.caller.fields['tally']
        mods = I.loop_mods
        for f in ('n_transcripts_processed', 'n_total_peptides', 'n_transcripts_invalid', 'n_valid_peptides'):
            if f in mods:
                t.fields[f] = I.e.int(f)
        d = t.fields['n_transcripts_failed']
        for k in list(d):
            if 'n_transcripts_failed' in mods and k in mods:
                d[k] = I.e.int('n_failed_' + k)

    def main_inv(self, I, env, k):
        st = self._cur
        g = st.G
        I._c06_env = env
        disp = env['dispatches']
        L = dlen(disp)
        j, t, t2 = z3.Ints('ij it it2')
        items = []
        if isinstance(k, int):     # initiation: does the code keep its own position counter `i`?
            st.has_counter = env.has('i') and isinstance(env['i'], int)
        if getattr(st, 'has_counter', False):
            # only when the code keeps its own position counter (a loop-carried local)
            items.append(('i=position', env['i'] == k))
        items += [
            ('pending+flushed=appended', z3.And(0 <= g.n_flushed, g.n_flushed <= g.n_app, L == g.n_app - g.n_flushed)),
            ('appended=all-non-None-so-far', g.n_app == st.cnt(k)),
            ('appended-are-earlier-non-None-transcripts-in-order',
             z3.ForAll([t], z3.Implies(z3.And(0 <= t, t < g.n_app),
                                        z3.And(0 <= g.app[t], g.app[t] < k, z3.Not(st.isnone(g.app[t])))))),
            ('appended-strictly-increasing',
             z3.ForAll([t, t2], z3.Implies(z3.And(0 <= t, t < t2, t2 < g.n_app), g.app[t] < g.app[t2]))),
            ('batch-smaller-than-threads', L < st.threads),
            ('nothing-pending-after-the-last-transcript', z3.Implies(k == st.N, L == 0)),
            ('fasta-not-yet-written', g.fasta_written == 0),
        ]
        if not isinstance(disp, list):
            items.append(('pending=next-unflushed-in-order',
                          z3.ForAll([j], z3.Implies(z3.And(0 <= j, j < L), disp.arr[j] == g.app[g.n_flushed + j]))))
        return items

    def main_havoc(self, I, env, k):
        st = self._cur
        g = st.G
        g.app = z3.Array(I.e.fresh_name('app'), I_, I_)
        g.n_app = I.e.int('n_app')
        g.n_flushed = I.e.int('n_flushed')
        g.last_valid = None
        env['dispatches'] = SymList(I, 'dispatches', wrap=lambda t: SymObj('Dispatch', idx=t),
                                    unwrap=lambda v: v.fields['idx'])
        self.havoc_tally(I, env)
        I._c06_env = env

    def main_on_head(self, I, env, k):
        st = self._cur
        g = st.G
        I._c06_env = env
        # ghost: remember the pre-state of this iteration
        g.pre = types.SimpleNamespace(n_app=g.n_app, n_flushed=g.n_flushed, L=dlen(env['dispatches']),
                                      processed=st.caller.fields['tally'].fields['n_transcripts_processed'])
        # ghost update attached to `dispatches.append(dispatch)`: done by wrapping the SymList
        disp = env['dispatches']
        orig = disp.sym_method
        def sym_method(I2, name, args, kwargs, disp=disp, orig=orig):
            if name == 'append':
                d = args[0]
                I2.e.prove('C06/append/is-this-transcripts-dispatch',
                           isinstance(d, SymObj) and d.cls == 'Dispatch' and z3.simplify(d.fields['idx'] == k))
                g.app = z3.Store(g.app, g.n_app, d.fields['idx'])
                g.n_app = g.n_app + 1
            return orig(I2, name, args, kwargs)
        disp.sym_method = sym_method

    def main_step(self, I, env, k):
        st = self._cur
        g = st.G
        t = st.caller.fields['tally']
        return [('processed-counts-appended',
                 t.fields['n_transcripts_processed'] == g.pre.processed + (g.n_app - g.pre.n_app))]

    def inner_havoc(self, I, env, k):
        self.havoc_tally(I, env)
        if 'call:is_valid' in I.loop_mods:
            self._cur.G.last_valid = None

    def results_on_head(self, I, env, k):
        t = self._cur.caller.fields['tally']
        self._cur.G.pre_fail = dict(t.fields['n_transcripts_failed'])
        self._cur.G.pre_total = t.fields['n_total_peptides']

    def results_step(self, I, env, k):
        st = self._cur
        t = st.caller.fields['tally']
        pre = st.G.pre_fail
        res = env['success_flags']
        pa = env['peptide_anno']
        out = [('C07/tally/total-peptides', t.fields['n_total_peptides'] == st.G.pre_total + st.npep(pa.fields['d']))]
        for idx, key in enumerate(('variant', 'fusion', 'circRNA')):
            out.append((f'C07/tally/{key}-failed-iff-flag-false',
                        t.fields['n_transcripts_failed'][key] == pre[key] + z3.If(as_bool(res[idx]), 0, 1)))
        return out

    # every peptide of a result is offered to the table once; every label of an accepted peptide is recorded once
    def pep_on_head(self, I, env, k):
        st = self._cur
        st.pmark = (len(st.valid_log), len(st.add_log))

    def pep_step(self, I, env, k):
        st = self._cur
        v = st.valid_log[st.pmark[0]:]
        ok = len(v) == 1 and isinstance(v[0], SymObj) and v[0].cls == 'Peptide' and z3.is_true(z3.simplify(v[0].fields['m'] == k))
        return [('C06/merge/k-th-peptide-offered-to-the-table-once', ok)]

    def lab_on_head(self, I, env, k):
        st = self._cur
        st.lmark = len(st.add_log)

    def lab_step(self, I, env, k):
        st = self._cur
        a = st.add_log[st.lmark:]
        ok = len(a) == 1 and isinstance(a[0][1], SymObj) and a[0][1].cls == 'Label' and z3.is_true(z3.simplify(a[0][1].fields['t'] == k))
        return [('C06/merge/k-th-label-of-the-accepted-peptide-recorded-once', ok)]

    @property
    def loops(self):
        T = lambda I, env, k: []
        return {
            1: LoopSpec(inv=self.main_inv, havoc=self.main_havoc, on_head=self.main_on_head, step=self.main_step),
            2: LoopSpec(inv=T, havoc=self.inner_havoc, on_head=self.results_on_head, step=self.results_step,
                        on_break=lambda I, env, k: [('C06/merge/every-result-of-the-batch-is-merged', False)]),
            3: LoopSpec(inv=T, havoc=self.inner_havoc, on_head=self.pep_on_head, step=self.pep_step,
                        on_break=lambda I, env, k: [('C06/merge/every-peptide-of-a-result-is-offered-to-the-table', False)]),
            4: LoopSpec(inv=T, havoc=self.inner_havoc, on_head=self.lab_on_head, step=self.lab_step,
                        on_break=lambda I, env, k: [('C06/merge/every-label-of-an-accepted-peptide-is-recorded', False)]),
        }

    # ------------------------------------------------------------------ post
    def post_return(self, I, st, ret):
        g = st.G
        I.e.prove('C06/exit/every-gathered-dispatch-was-processed', g.n_flushed == g.n_app)
        I.e.prove('C06/exit/every-non-None-transcript-was-gathered', g.n_app == st.cnt(st.N))
        I.e.prove('C04/exit/fasta-written-once', g.fasta_written == 1)
        I.e.prove('C04/exit/header-written-once', g.header_written == 1)

    def post_raise(self, I, st, exc):
        g = st.G
        I.e.prove('C07/raise/only-from-a-failing-dispatch', g.raised_in_dispatch)
        I.e.prove('C07/raise/no-fasta-claiming-success', g.fasta_written == 0)


# ----------------------------------------------------------------------------
# Native side: bounded stand-in for what no contract decides (hash-seed independence,
# purity of the workers, equality of index-dir and raw references): paired runs of the
# REAL callVariant on the repository's demo inputs.
# ----------------------------------------------------------------------------
from pyvc.native import NativeCheck
import os, tempfile, shutil, subprocess, sys, json, types


# ----------------------------------------------------------------------------
# collections gathered through sets are returned in a defined order (hash-seed independence)
# ----------------------------------------------------------------------------
VRP = 'moPepGen/seqvar/VariantRecordPool.py'


class _RecSet:
    """a set built by the function: only added to / updated, iterated in an order the hash seed decides, or turned into a list"""
    def __init__(self, owner, base=None):
        self.owner, self.base, self.adds = owner, base, []

    def sym_method(self, I, name, a, k):
        if name == 'add':
            self.adds.append(a[0])
            return None
        if name == 'update':
            self.adds.append(('update', a[0]))
            return None
        raise Unsupported(f'set.{name}')

    def sym_view(self, I):
        n = I.e.int('n_set_items')
        I.e.assume(n >= 0)
        return FnView(n, lambda i: SymObj('TxId06f', i=i if is_z3(i) else z3.IntVal(i)), tag='set iteration')


class _RecList:
    def __init__(self, owner):
        self.owner, self.sorted = owner, False

    def sym_method(self, I, name, a, k):
        if name == 'sort':
            self.sorted = not (a or k)
            return None
        self.sorted = False
        if name in ('append', 'extend', 'reverse'):
            return None
        raise Unsupported(f'records.{name}')


@register
class FilterVariantsOrder(Contract):
    """filter_variants gathers the records of several transcripts through sets (whose iteration order depends on the hash seed) and must hand
    them on sorted by their own order: the list it returns is sorted after its last modification, so downstream code that assumes sorted
    input (merging adjacent variants, graph construction) sees the same sequence in every process"""
    path, qualname, props = VRP, 'VariantRecordPool.filter_variants', ('C06',)
    pool_cls = 'VariantRecordPool'
    declared_raises = ['ValueError']
    assumptions = ('havoc: which records pass the position filter; list.sort() orders records by location (VariantRecord ordering)',)

    def setup(self, I):
        e = I.e
        st = types.SimpleNamespace(adds=[], lists=[])
        zz = lambda i: i if is_z3(i) else z3.IntVal(i)
        ntx = e.int('n_tx')
        e.assume(ntx >= 0)
        rec = lambda kind: (lambda i: SymObj('VariantRecord', type=SymObj('RecType'), location=SymObj('Loc06', start=e.int('rec_start'), end=e.int('rec_end')), _kind=kind))
        series = SymObj('Series06f', transcriptional=FnView(e.int('n_transcriptional'), rec('tx'), tag='transcriptional'), intronic=FnView(e.int('n_intronic'), rec('intron'), tag='intronic'))
        anno = SymObj('Anno06f', genes=types.SimpleNamespace(sym_getitem=lambda I2, key: SymObj('Gene06f', transcripts=FnView(ntx, lambda i: SymObj('TxId06f', i=zz(i)), tag='gene transcripts'))),
                      transcripts=types.SimpleNamespace(sym_getitem=lambda I2, key: SymObj('TxModel06f', transcript=SymObj('Tx06f', gene_id=SymObj('GeneId06f')))))
        st.pool = SymObj(self.pool_cls, anno=anno, _series=series, pointers=types.SimpleNamespace(sym_contains=lambda I2, key: I2.e.bool('transcript_has_variants')))
        st.args = [st.pool]
        st.kwargs = dict(gene_id=SymObj('GeneId06f') if e.branch(e.bool('gene_given'), 'gene') else None,
                         tx_ids=FnView(e.int('n_given_tx'), lambda i: SymObj('TxId06f', i=zz(i)), tag='tx_ids') if e.branch(e.bool('tx_ids_given'), 'tx ids') else None,
                         exclude_type=types.SimpleNamespace(sym_contains=lambda I2, item: I2.e.bool('type_excluded')),
                         start=e.int('start') if e.branch(e.bool('start_given'), 'start') else None, end=e.int('end') if e.branch(e.bool('end_given'), 'end') else None,
                         intron=e.bool('intron'), segments=None, return_coord='gene' if e.branch(e.bool('gene_coordinates'), 'coord') else 'transcript')
        self._cur = st
        return st

    @property
    def models(self):
        c = self

        def inst(reg):
            reg.set_hooks.append(lambda v: (lambda I, v: _RecSet(c, v)) if isinstance(v, FnView) and v.tag == 'tx_ids' else None)
            reg.empty_set_hook = lambda I: _RecSet(c)
            reg.protocol_(c.pool_cls, '__contains__', lambda I, o, key: I.e.bool('transcript_has_variants'))
            reg.protocol_(c.pool_cls, '__getitem__', lambda I, o, key: o.fields['_series'])
            reg.method_('Anno06f', 'variant_coordinates_to_gene', lambda I, o, a, k: SymObj('VariantRecord', type=a[0].fields['type'], location=SymObj('Loc06', start=I.e.int('g_start'), end=I.e.int('g_end')), _gene_of=a[0]))
            reg.method_('VariantRecord', 'is_merged_mnv', lambda I, o, a, k: I.e.bool('merged_mnv'))

            def list_hook(I, a, k):
                if a and isinstance(a[0], _RecSet):
                    l = _RecList(c)
                    c._cur.lists.append(l)
                    return l
                return None
            reg.list_hook = list_hook
        return (inst,)

    @property
    def loops(self):
        T = lambda I, env, k: []
        U = dict(target_after='unknown')
        return {0: LoopSpec(inv=T, havoc=lambda I, env, k: None, **U), 1: LoopSpec(inv=T, havoc=lambda I, env, k: None, **U), 2: LoopSpec(inv=T, havoc=lambda I, env, k: None, **U)}

    def post_return(self, I, st, ret):
        I.e.prove('C06/filter_variants/returned-list-sorted-after-its-last-modification', isinstance(ret, _RecList) and ret.sorted)


@register
class FilterVariantsOrderOnDisk(FilterVariantsOrder):
    """the same for the on-disk pool callVariant works with"""
    path, qualname = 'moPepGen/seqvar/VariantRecordPoolOnDisk.py', 'VariantRecordPoolOnDisk.filter_variants'
    pool_cls = 'VariantRecordPoolOnDisk'


# ----------------------------------------------------------------------------
# the worker: caller_reducer (retry with reduced complexity on a timeout)
# ----------------------------------------------------------------------------
@register
class CallerReducer(Contract):
    """the worker calls the per-transcript wrapper with exactly the dispatch it was given - on a retry after a timeout with a copy in which
    only the cleavage parameters are replaced by a copy with reduced complexity limits; the dispatch and the cleavage parameters it was
    given are never modified (they are shared between the transcripts of a run); it returns what the wrapper returns, lets every other
    failure through and gives up with ValueError only when the variant limit cannot be reduced further"""
    path, qualname, props = CVP, 'caller_reducer', ('C06', 'C07')
    declared_raises = ['ValueError', '<any>']
    assumptions = ('havoc: call_variant_peptides_wrapper returns, times out or fails (its own contract is Wrapper, contracts/c07.py); copy.copy makes a '
                   'shallow copy; the retry schedule (which reduced limits are tried) is followed but its termination is not proved',)

    def setup(self, I):
        e = I.e
        st = types.SimpleNamespace(calls=[], outcome=None)
        st.params = SymObj('CleavageParams', max_variants_per_node=e.int('mvpn0'), additional_variants_per_misc=e.int('avpm0'), _original=True)
        n1, n2 = e.int('n_mvpn'), e.int('n_avpm')
        e.assume(z3.And(n1 >= 1, n2 >= 1))
        a1, a2 = e.array('mvpn'), e.array('avpm')
        zz = lambda i: i if is_z3(i) else z3.IntVal(i)
        st.dispatch = dict(tx_id=SymObj('TxId'), variant_series=SymObj('Series'), cleavage_params=st.params, pool=SymObj('Pool'),
                           max_variants_per_node=FnView(n1, lambda i: a1[zz(i)], tag='mvpn'), additional_variants_per_misc=FnView(n2, lambda i: a2[zz(i)], tag='avpm'),
                           skip_failed=e.bool('skip_failed'))
        st.snapshot = dict(st.dispatch)
        st.args = [st.dispatch]
        self._cur = st
        return st

    @property
    def models(self):
        c = self

        def inst(reg):
            def wrapper(I, a, k):
                st = c._cur
                st.calls.append(dict(k))
                same = not a and set(k) == set(st.snapshot) and all(k[x] is st.snapshot[x] for x in st.snapshot if x != 'cleavage_params')
                I.e.prove('C06/worker/wrapper-gets-the-dispatch-it-was-given-apart-from-the-cleavage-parameters', same)
                cp = k.get('cleavage_params')
                I.e.prove('C06/worker/cleavage-parameters-are-the-given-ones-or-a-copy-of-them',
                          isinstance(cp, SymObj) and cp.cls == 'CleavageParams' and (cp is st.params or cp.fields.get('_copy_of') is not None))
                ch = I.e.choose(3, 'wrapper outcome')
                st.outcome = ch
                if ch == 1:
                    raise PyRaise(SymExc('TimeoutError', ['timed out']))
                if ch == 2:
                    raise PyRaise(SymExc('<any>', ['failure']))
                st.result = SymObj('WrapperResult')
                return st.result
            reg.func_(CVP, 'call_variant_peptides_wrapper', wrapper)

            def copy_(I, a, k):
                v = a[0]
                if isinstance(v, dict):
                    return dict(v)
                if isinstance(v, SymObj) and v.cls == 'CleavageParams':
                    f = dict(v.fields)
                    f.pop('_original', None)
                    f['_copy_of'] = v.fields.get('_copy_of', v)
                    return SymObj('CleavageParams', **f)
                raise Unsupported(f'copy.copy({v!r})')
            reg.ext_('copy.copy', copy_)

            def guard(name):
                def h(I, o, v):
                    I.e.prove('C06/worker/given-cleavage-parameters-are-never-modified', '_copy_of' in o.fields)
                    o.fields[name] = v
                return h
            for nm in ('max_variants_per_node', 'additional_variants_per_misc'):
                reg._setattr[('CleavageParams', nm)] = guard(nm)
        return (inst,)

    def havoc(self, I, env, k):
        st = self._cur
        e = I.e
        # an arbitrary retry: the dispatch is the given one (first attempt) or a copy whose cleavage parameters are a copy
        if e.branch(k == 0, 'first attempt'):
            env['dispatch'] = st.dispatch
        else:
            cp = SymObj('CleavageParams', max_variants_per_node=e.int('mvpn_cur'), additional_variants_per_misc=e.int('avpm_cur'), _copy_of=st.params)
            d = dict(st.snapshot)
            d['cleavage_params'] = cp
            env['dispatch'] = d
        for nm in ('max_variants_per_node', 'additional_variants_per_misc'):
            n = e.int(f'n_{nm}_left')
            e.assume(n >= 1)
            arr = e.array(f'{nm}_left')
            env[nm] = FnView(n, lambda i, arr=arr: arr[i if is_z3(i) else z3.IntVal(i)], tag=nm)

    def inv(self, I, env, k):
        st = self._cur
        d = env['dispatch']
        ok = isinstance(d, dict) and set(d) == set(st.snapshot) and all(d[x] is st.snapshot[x] for x in st.snapshot if x != 'cleavage_params')
        cp = d.get('cleavage_params') if isinstance(d, dict) else None
        okcp = isinstance(cp, SymObj) and (cp is st.params or cp.fields.get('_copy_of') is not None)
        given = all(st.dispatch[x] is st.snapshot[x] for x in st.snapshot) and st.params.fields.get('_original') is True
        return [('next-attempt-uses-the-given-dispatch-with-at-most-the-cleavage-parameters-replaced-by-a-copy', ok and okcp),
                ('given-dispatch-untouched', given)]

    @property
    def loops(self):
        return {0: LoopSpec(inv=self.inv, havoc=self.havoc, keep=('tx_id',))}

    def post_return(self, I, st, ret):
        I.e.prove('C06/worker/returns-what-the-wrapper-returned', st.outcome == 0 and ret is st.result)
        I.e.prove('C06/worker/given-dispatch-untouched-at-return', all(st.dispatch[x] is st.snapshot[x] for x in st.snapshot))

    def post_raise(self, I, st, exc):
        if exc.cls == 'ValueError':
            I.e.prove('C06/worker/gives-up-only-after-a-timeout', st.outcome == 1)
        else:
            I.e.prove('C06/worker/other-failures-of-the-wrapper-pass-through', exc.cls == '<any>' and st.outcome == 2)


# ----------------------------------------------------------------------------
# what one dispatch carries: gather_data_for_call_variant
# ----------------------------------------------------------------------------
TXID = z3.Function('transcript_id_at', I_, I_)          # position in tx_ids -> transcript
GENE_OF = z3.Function('gene_of_transcript', I_, I_)
CHROM_OF = z3.Function('chromosome_of_transcript', I_, I_)


def _tx(t):
    return SymObj('TxId06', t=t if is_z3(t) else z3.IntVal(t))


class _TxIds(View):
    """tx_ids = [tx_id] + additional transcripts"""
    def __init__(self, m):
        self.m = m

    def length(self):
        return self.m + 1

    def get(self, j):
        return _tx(TXID(j if is_z3(j) else z3.IntVal(j)))

    def sym_contains(self, I, item):
        j = z3.Int('j_in_tx_ids')
        return z3.Exists([j], z3.And(0 <= j, j <= self.m, TXID(j) == item.fields['t']))


class _Additional:
    def __init__(self, m):
        self.m = m

    def sym_binop(self, I, op, other, reflected):
        if op == '+' and reflected and isinstance(other, list) and len(other) == 1 and isinstance(other[0], SymObj) and other[0].cls == 'TxId06':
            I.e.assume(TXID(0) == other[0].fields['t'])
            return _TxIds(self.m)
        return NotImplemented


class _GeneTxList(View):
    """the transcripts of a gene model (ids of unknown number)"""
    def __init__(self, e, g):
        self.g = g
        self.n = e.int('n_gene_transcripts')
        e.assume(self.n >= 0)
        self.ids = e.array('gene_transcript_ids')

    def length(self):
        return self.n

    def get(self, j):
        return _tx(self.ids[j if is_z3(j) else z3.IntVal(j)])


class _GhostSeqDict:
    """tx_seqs / gene_seqs: every write is checked when it happens"""
    def __init__(self, owner, kind):
        self.owner, self.kind = owner, kind

    def sym_contains(self, I, item):
        return I.e.bool(f'{self.kind}_already_present')

    def sym_setitem(self, I, key, val):
        self.owner.check_write(I, self.kind, key, val)
        self.owner._cur.writes.append((self.kind, key, val))


@register
class GatherData(Contract):
    """the dispatch of a transcript: None iff it has no variants / none of the requested kind (or, with --skip-failed, its variants cannot
    be read - counted as invalid); otherwise the sequence of every transcript involved comes from that transcript's own chromosome, the
    sequence of every gene involved from the chromosome of a transcript of that gene, the annotation handed on is restricted to the
    transcripts involved and built from copies (the reference annotation is not modified), and the run's own cleavage parameters and
    flags are carried unchanged"""
    path, qualname, props = CVP, 'VariantPeptideCaller.gather_data_for_call_variant', ('C06', 'C15', 'C07', 'C05')
    declared_raises = ['ValueError']
    assumptions = ('external: VariantRecordPoolOnDisk lookups (return a series or raise ValueError / KeyError), the series predicates, '
                   'get_transcript_sequence / get_gene_sequence (functions of the model and the chromosome sequence), copy.deepcopy (a new object)',
                   'a set comprehension over the transcripts is treated as a sequence that may repeat elements (per-element obligations only)')

    def setup(self, I):
        e = I.e
        st = types.SimpleNamespace(writes=[], anno_ctor=[], ref_ctor=[], pool_sets=[], lookups=[])
        st.M = e.int('n_additional')
        e.assume(st.M >= 0)
        st.main = e.int('main_tx')
        st.skip_failed = e.bool('skip_failed')
        st.noncanonical = e.bool('noncanonical_transcripts')
        st.cleavage = SymObj('CleavageParams')
        st.flags = dict(max_adjacent_as_mnv=e.int('max_adjacent_as_mnv'), truncate_sec=e.bool('truncate_sec'), w2f_reassignment=e.bool('w2f_reassignment'))
        st.argv = dict(timeout_seconds=e.int('timeout'), max_variants_per_node=[e.int('mvpn')], additional_variants_per_misc=[e.int('avpm')],
                       backsplicing_only=e.bool('backsplicing_only'), coding_novel_orf=e.bool('coding_novel_orf'), skip_failed=st.skip_failed)
        st.source = SymObj('AnnoSource')
        c = self

        tx_table = types.SimpleNamespace(sym_getitem=lambda I2, key: c.tx_model(key))
        gene_table = types.SimpleNamespace(sym_getitem=lambda I2, key: c.gene_model(key))
        st.anno = SymObj('GenomicAnnotationStub', transcripts=tx_table, genes=gene_table, source=st.source)
        st.genome = types.SimpleNamespace(sym_getitem=lambda I2, key: SymObj('ChromSeq', c=key.fields['c']))
        st.ref = SymObj('ReferenceData', anno=st.anno, genome=st.genome)
        st.series = SymObj('Series06')
        st.pool = SymObj('PoolOnDisk06')
        st.self = SymObj('VariantPeptideCaller', reference_data=st.ref, args=SymObj('Namespace', **st.argv), tally=SymObj('Tally', n_transcripts_invalid=e.int('n_invalid')),
                         noncanonical_transcripts=st.noncanonical, cleavage_params=st.cleavage, graph_output_dir=SymObj('Dir') if e.branch(e.bool('save_graph'), 'graph dir') else None,
                         **st.flags)
        st.invalid0 = st.self.fields['tally'].fields['n_transcripts_invalid']
        st.args = [st.self, _tx(st.main), st.pool]
        st.models = {}
        self._cur = st
        self._I = I
        return st

    def tx_model(self, key):
        st = self._cur
        t = key.fields['t']
        k = z3.simplify(t).sexpr()
        if k not in st.models:
            st.models[k] = SymObj('TxModel06', t=t, transcript=SymObj('Tx06', gene_id=SymObj('GeneId06', g=GENE_OF(t)), chrom=SymObj('Chrom06', c=CHROM_OF(t))))
        return st.models[k]

    def gene_model(self, key):
        return SymObj('GeneModel06', g=key.fields['g'], transcripts=_GeneTxList(self._I.e, key.fields['g']), _original=True)

    def check_write(self, I, kind, key, val):
        e = I.e
        if kind == 'tx_seqs':
            ok = isinstance(val, SymObj) and val.cls == 'TxSeq06' and isinstance(key, SymObj) and key.cls == 'TxId06'
            e.prove('C15/gather/transcript-sequence-from-its-own-chromosome',
                    z3.And(val.fields['t'] == key.fields['t'], val.fields['c'] == CHROM_OF(key.fields['t'])) if ok else False)
        else:
            ok = isinstance(val, SymObj) and val.cls == 'GeneSeq06' and isinstance(key, SymObj) and key.cls == 'GeneId06'
            t = z3.Int('t_of_gene')
            e.prove('C15/gather/gene-sequence-from-the-chromosome-of-a-transcript-of-that-gene',
                    z3.And(val.fields['g'] == key.fields['g'],
                           z3.Exists([t], z3.And(GENE_OF(t) == key.fields['g'], CHROM_OF(t) == val.fields['c']))) if ok else False)

    @property
    def models(self):
        c = self

        def inst(reg):
            def lookup(I, o, key):
                st = c._cur
                st.lookups.append(key)
                if len(st.lookups) == 1:
                    I.e.prove('C06/gather/variants-of-this-transcript-looked-up', key.fields['t'] is st.main or z3.is_true(z3.simplify(key.fields['t'] == st.main)))
                    if I.e.branch(I.e.bool('series_unreadable'), 'pool raises'):
                        raise PyRaise(SymExc('ValueError', ['bad series']))
                    return st.series
                if I.e.branch(I.e.bool('additional_has_no_variants'), 'KeyError'):
                    raise PyRaise(SymExc('KeyError', ['no variants']))
                return SymObj('Series06b', t=key.fields['t'])
            reg.protocol_('PoolOnDisk06', '__getitem__', lookup)
            reg.method_('Series06', 'is_empty', lambda I, o, a, k: I.e.bool('series_is_empty'))
            reg.method_('Series06', 'has_any_noncanonical_transcripts', lambda I, o, a, k: I.e.bool('series_has_noncanonical'))
            reg.method_('Series06', 'is_gene_sequence_needed', lambda I, o, a, k: I.e.bool('gene_sequence_needed'))
            reg.method_('Series06', 'get_additional_transcripts', lambda I, o, a, k: _Additional(c._cur.M))
            reg.method_('TxModel06', 'get_transcript_sequence', lambda I, o, a, k: SymObj('TxSeq06', t=o.fields['t'], c=a[0].fields['c']))
            reg.method_('GeneModel06', 'get_gene_sequence', lambda I, o, a, k: SymObj('GeneSeq06', g=o.fields['g'], c=a[0].fields['c']))
            reg.protocol_('GeneId06', '__eq__', lambda I, a, b: a.fields['g'] == b.fields['g'] if isinstance(b, SymObj) and b.cls == 'GeneId06' else False)
            reg.protocol_('TxId06', '__eq__', lambda I, a, b: a.fields['t'] == b.fields['t'] if isinstance(b, SymObj) and b.cls == 'TxId06' else False)

            def deepcopy(I, a, k):
                v = a[0]
                if isinstance(v, SymObj) and v.cls == 'GeneModel06':
                    return SymObj('GeneModel06', **{**v.fields, '_original': False})
                raise Unsupported(f'copy.deepcopy({v!r})')
            reg.ext_('copy.deepcopy', deepcopy)

            def guard(I, o, v):
                I.e.prove('C06/gather/reference-annotation-not-modified (only the copy is restricted)', o.fields.get('_original') is False)
                o.fields['transcripts'] = v
            reg._setattr[('GeneModel06', 'transcripts')] = guard

            def comp(I, node, env, view, kind):
                st = c._cur
                from pyvc.interp import Env
                g = node.generators[0]
                j = z3.Int('j_comp')
                sub = Env({}, env)
                if kind == 'dict' and isinstance(view, _TxIds):
                    I.assign(g.target, view.get(j), sub)
                    kk, vv = I.eval(node.key, sub), I.eval(node.value, sub)
                    I.e.prove('C06/gather/annotation-table-maps-each-involved-transcript-to-its-own-model',
                              isinstance(kk, SymObj) and kk.cls == 'TxId06' and isinstance(vv, SymObj) and vv.cls == 'TxModel06'
                              and z3.is_true(z3.simplify(z3.And(kk.fields['t'] == TXID(j), vv.fields['t'] == TXID(j)))))
                    return SymObj('TxTableOf06', ids=view)
                if kind == 'list' and isinstance(view, _GeneTxList) and len(g.ifs) == 1:
                    x = SymObj('TxId06', t=z3.Int('t_member'))
                    I.assign(g.target, x, sub)
                    cond = as_bool(I.truth(I.eval(g.ifs[0], sub)))
                    keep = I.eval(node.elt, sub)
                    I.e.prove('C06/gather/gene-keeps-exactly-its-transcripts-that-are-involved', z3.And(keep is x, cond == env['tx_ids'].sym_contains(I, x)))
                    return SymObj('FilteredGeneTxList06', g=view.g)
                return None
            reg.comprehension_hooks.append(comp)
            orig_as_view = None
            reg.ctor_('GenomicAnnotation', lambda I, a, k: (c._cur.anno_ctor.append(k), SymObj('DummyAnno06', **k))[1])
            reg.ctor_('ReferenceData', lambda I, a, k: (c._cur.ref_ctor.append(k), SymObj('DummyRef06', **k))[1])
            reg.ctor_('VariantRecordPool', lambda I, a, k: SymObj('DummyPool06', data=types.SimpleNamespace(sym_setitem=lambda I2, key, v: c._cur.pool_sets.append((key, v))), anno=None))
            reg.protocol_('DummyPool06', '__setitem__', lambda I, o, key, v: c._cur.pool_sets.append((key, v)))
        return (inst,)

    # loop 0: for _tx_id in tx_ids
    def init0(self, I, env):
        st = self._cur
        gs = env['gene_seqs']
        if isinstance(gs, dict):
            for key, val in gs.items():
                self.check_write(I, 'gene_seqs', key, val)
                I.e.prove('C15/gather/first-gene-sequence-is-that-of-the-main-transcript', z3.And(key.fields['g'] == GENE_OF(st.main), val.fields['c'] == CHROM_OF(st.main)))

    def havoc0(self, I, env, k):
        env['tx_seqs'], env['gene_seqs'] = _GhostSeqDict(self, 'tx_seqs'), _GhostSeqDict(self, 'gene_seqs')

    def head0(self, I, env, k):
        self._cur.mark = len(self._cur.writes)

    def step0(self, I, env, k):
        st = self._cur
        w = st.writes[st.mark:]
        txw = [x for x in w if x[0] == 'tx_seqs']
        gw = [x for x in w if x[0] == 'gene_seqs']
        return [('sequence-of-the-k-th-transcript-stored-once', len(txw) == 1 and z3.is_true(z3.simplify(txw[0][1].fields['t'] == TXID(k)))),
                ('gene-of-the-k-th-transcript-stored-unless-present', len(gw) <= 1 and all(z3.is_true(z3.simplify(x[1].fields['g'] == GENE_OF(TXID(k)))) for x in gw))]

    # loop 2: the variants of the other transcripts involved
    def head2(self, I, env, k):
        st = self._cur
        st.m2 = (len(st.lookups), len(st.pool_sets))

    def step2(self, I, env, k):
        st = self._cur
        looks, sets = st.lookups[st.m2[0]:], st.pool_sets[st.m2[1]:]
        is_main = TXID(k) == st.main
        items = [('main-transcript-not-looked-up-again', z3.Implies(is_main, len(looks) == 0 and len(sets) == 0))]
        if looks:
            items.append(('variants-of-the-k-th-transcript-looked-up-once', len(looks) == 1 and z3.is_true(z3.simplify(looks[0].fields['t'] == TXID(k)))))
            if sets:
                items.append(('its-series-handed-on-under-its-own-id', len(sets) == 1 and z3.is_true(z3.simplify(sets[0][0].fields['t'] == TXID(k)))
                              and isinstance(sets[0][1], SymObj) and sets[0][1].cls == 'Series06b' and z3.is_true(z3.simplify(sets[0][1].fields['t'] == TXID(k)))))
        else:
            items.append(('only-the-main-transcript-is-skipped', is_main))
        return items

    @property
    def loops(self):
        T = lambda I, env, k: []
        return {0: LoopSpec(inv=T, on_init=self.init0, havoc=self.havoc0, on_head=self.head0, step=self.step0),
                1: LoopSpec(inv=T, havoc=lambda I, env, k: env.__setitem__('gene_models', types.SimpleNamespace(sym_setitem=lambda I2, key, v: None))),
                2: LoopSpec(inv=T, on_head=self.head2, step=self.step2, on_break=lambda I, env, k: [('every-involved-transcript-is-looked-at', False)])}

    def post_return(self, I, st, ret):
        e = I.e
        inv_now = st.self.fields['tally'].fields['n_transcripts_invalid']
        if ret is None:
            e.prove('C07/gather/invalid-count-changes-only-for-an-unreadable-series-under-skip-failed',
                    z3.Or(inv_now == st.invalid0, z3.And(st.skip_failed, inv_now == st.invalid0 + 1)))
            return
        ok = isinstance(ret, dict)
        e.prove('C06/gather/returns-a-dispatch', ok)
        if not ok:
            return
        e.prove('C07/gather/invalid-count-untouched-for-a-dispatch', inv_now == st.invalid0)
        e.prove('C06/gather/dispatch-is-for-this-transcript-with-its-own-series', z3.And(ret['tx_id'].fields['t'] == st.main, ret['variant_series'] is st.series))
        e.prove('C06/gather/dispatch-carries-the-run-parameters-unchanged',
                ret['cleavage_params'] is st.cleavage and ret['noncanonical_transcripts'] is st.noncanonical
                and all(ret[n] is v for n, v in st.flags.items()) and ret['timeout'] is st.argv['timeout_seconds']
                and ret['backsplicing_only'] is st.argv['backsplicing_only'] and ret['coding_novel_orf'] is st.argv['coding_novel_orf']
                and ret['skip_failed'] is st.skip_failed and ret['max_variants_per_node'] == tuple(st.argv['max_variants_per_node'])
                and ret['additional_variants_per_misc'] == tuple(st.argv['additional_variants_per_misc'])
                and ret['save_graph'] == (st.self.fields['graph_output_dir'] is not None))
        e.prove('C06/gather/sequences-collected-are-handed-on', isinstance(ret['tx_seqs'], (_GhostSeqDict, dict)) and isinstance(ret['gene_seqs'], (_GhostSeqDict, dict)))
        okr = len(st.ref_ctor) == 1 and len(st.anno_ctor) == 1 and isinstance(ret['reference_data'], SymObj) and ret['reference_data'].cls == 'DummyRef06'
        e.prove('C06/gather/reference-handed-on-is-the-restricted-annotation-without-genome',
                okr and st.ref_ctor[0].get('genome') is None and isinstance(st.ref_ctor[0].get('anno'), SymObj) and st.ref_ctor[0]['anno'].cls == 'DummyAnno06'
                and isinstance(st.anno_ctor[0].get('transcripts'), SymObj) and st.anno_ctor[0]['transcripts'].cls == 'TxTableOf06' and st.anno_ctor[0].get('source') is st.source)
        e.prove('C06/gather/pool-handed-on-holds-the-series-of-this-transcript',
                len(st.pool_sets) >= 1 and st.pool_sets[0][1] is st.series and z3.is_true(z3.simplify(st.pool_sets[0][0].fields['t'] == st.main)))

    def post_raise(self, I, st, exc):
        I.e.prove('C07/gather/raise/only-an-unreadable-series-without-skip-failed', z3.And(exc.cls == 'ValueError', z3.Not(st.skip_failed)))


class NativePairedRuns(NativeCheck):
    name = 'paired_runs'
    props = ('C06',)
    functions = (f'{CVP}:call_variant_peptide',)
    bounded_for = ('peptide set independent of --threads (incl. skipped transcripts), GVF file split/order, '
                   '.idx files, index dir vs raw reference, PYTHONHASHSEED')
    bound = ('repository demo inputs (test/files: vep gSNP+gINDEL, fusion, circRNA, reditools, alternative splicing); '
             'threads 1-4 x noncanonical-transcripts; files split in two / reversed; with .idx; '
             'thorough: index directory and hash seeds 1,2 in subprocesses')
    quick_budget_s = 120
    thorough_budget_s = 600

    def __init__(self):
        self._cache = {}

    def cases(self, rng, tier):
        for nc in (False, True):
            for th in (2, 3, 4) if tier == 'thorough' else (3,):
                yield dict(kind='threads', threads=th, noncanonical=nc)
        yield dict(kind='layout', layout='reversed')
        yield dict(kind='layout', layout='split')
        yield dict(kind='layout', layout='idx')
        if tier == 'thorough':
            yield dict(kind='layout', layout='split-reversed')
            yield dict(kind='indexdir')
            for seed in (1, 2):
                yield dict(kind='hashseed', seed=seed)

    def _base(self, nc):
        from . import cv_run
        key = ('base', nc)
        if key not in self._cache:
            f, _ = cv_run.run_call_variant(threads=1, noncanonical_transcripts=nc)
            self._cache[key] = set(f.values())
        return self._cache[key]

    def check(self, inp):
        from . import cv_run
        from pathlib import Path
        kind = inp['kind']
        if kind == 'threads':
            base = self._base(inp['noncanonical'])
            f, _ = cv_run.run_call_variant(threads=inp['threads'], noncanonical_transcripts=inp['noncanonical'])
            got = set(f.values())
        elif kind == 'layout':
            base = self._base(False)
            tmp = tempfile.mkdtemp(prefix='pyvc_c06_')
            try:
                files = []
                for g in cv_run.DEMO_GVFS:
                    src = cv_run.DATA / g
                    if 'split' in inp['layout']:
                        head, recs = [], []
                        for line in open(src):
                            (head if line.startswith('#') else recs).append(line)
                        # split at a transcript boundary (records of one transcript stay contiguous per file)
                        groups, cur, last = [], [], None
                        for line in recs:
                            tid = [x for x in line.rstrip('\n').split('\t')[-1].split(';') if x.startswith('TRANSCRIPT_ID=')]
                            tid = tid[0] if tid else line.split('\t')[0]
                            if tid != last and cur:
                                groups.append(cur); cur = []
                            cur.append(line); last = tid
                        if cur:
                            groups.append(cur)
                        for part in (0, 1):
                            p = Path(tmp) / f'{Path(g).stem}.part{part}.gvf'
                            with open(p, 'w') as fh:
                                fh.writelines(head)
                                for gi, grp in enumerate(groups):
                                    if gi % 2 == part:
                                        fh.writelines(grp)
                            files.append(p)
                    else:
                        p = Path(tmp) / Path(g).name
                        shutil.copy(src, p)
                        files.append(p)
                if 'idx' in inp['layout']:
                    import argparse
                    from moPepGen import cli
                    for p in files:
                        a = argparse.Namespace(command='indexGVF', input_path=p, quiet=True, debug_level=1)
                        cli.index_gvf(a)
                if 'reversed' in inp['layout']:
                    files = list(reversed(files))
                f, _ = cv_run.run_call_variant(gvfs=[str(p) for p in files], threads=1)
                got = set(f.values())
            finally:
                shutil.rmtree(tmp, ignore_errors=True)
        elif kind == 'indexdir':
            base = self._base(False)
            tmp = tempfile.mkdtemp(prefix='pyvc_c06_')
            try:
                import argparse
                from moPepGen import cli
                a = cv_run.base_args(command='generateIndex', output_dir=Path(tmp) / 'index', force=False,
                                     gtf_symlink=False, cleavage_exception='auto')
                cli.generate_index(a)
                f, _ = cv_run.run_call_variant(threads=1, index_dir=Path(tmp) / 'index', genome_fasta=None,
                                               annotation_gtf=None, proteome_fasta=None, cleavage_exception='auto')
                got = set(f.values())
                f0, _ = cv_run.run_call_variant(threads=1, cleavage_exception='auto')
                base = set(f0.values())
            finally:
                shutil.rmtree(tmp, ignore_errors=True)
        elif kind == 'hashseed':
            base = self._base(False)
            code = ("import sys, json; sys.path.insert(0, %r); sys.path.insert(0, %r);\n"
                    "from contracts import cv_run\n"
                    "f, _ = cv_run.run_call_variant(threads=1)\n"
                    "print('RESULT' + json.dumps(sorted(set(f.values()))))") % (os.environ.get('PYVC_REPO', '/repo'), os.path.dirname(os.path.dirname(os.path.abspath(__file__))))
            env = dict(os.environ, PYTHONHASHSEED=str(inp['seed']))
            out = subprocess.run([sys.executable, '-W', 'ignore', '-c', code], capture_output=True, text=True, env=env, timeout=300)
            line = [l for l in out.stdout.splitlines() if l.startswith('RESULT')]
            if not line:
                return dict(observed='subprocess failed: ' + out.stderr[-300:], expected='a run')
            got = set(json.loads(line[0][6:]))
        else:
            return None
        if got != base:
            return dict(observed=dict(n=len(got), missing=sorted(base - got)[:5], extra=sorted(got - base)[:5]),
                        expected=dict(n=len(base)))
        return None


NATIVE = [NativePairedRuns()]


class NativeDispatchHarness(NativeCheck):
    """The REAL call_variant_peptide executed with its environment replaced by recording stubs (the
    concrete counterpart of the assumed contracts of DispatchLoop): replay target for its obligations."""
    name = 'dispatch_harness'
    props = ('C06', 'C07', 'C04')
    functions = (f'{CVP}:call_variant_peptide',)
    bounded_for = ''
    bound = ('replay harness: N <= 5 transcripts, every skip pattern (2^N), threads 1..4; the per-transcript work is a stub, '
             'so this exercises exactly the batching / flush / tally / table-guard logic that DispatchLoop proves')
    quick_budget_s = 40
    thorough_budget_s = 120

    def cases(self, rng, tier):
        import itertools
        for n in range(0, 6 if tier == 'thorough' else 5):
            for pat in itertools.product([0, 1], repeat=n):
                for th in (1, 2, 3, 4):
                    yield dict(skip=list(pat), threads=th, fail=[(i * 7 + th) % 3 == 0 for i in range(n)])

    def from_model(self, model):
        from . import realobj
        n = realobj.model_int(model, 'N')
        th = realobj.model_int(model, 'threads')
        if n is None or th is None or not (0 <= n <= 8) or not (1 <= th <= 8):
            return None
        f = model.get('isnone')
        skip = []
        for i in range(n):
            v = (f.get(str(i), f.get('else')) if isinstance(f, dict) else 'False')
            skip.append(1 if str(v) == 'True' else 0)
        return dict(skip=skip, threads=th, fail=[False] * n)

    def nontrivial(self, inp):
        return (tuple(inp['skip']), inp['threads']) if any(inp['skip']) and inp['threads'] > 1 else None

    def check(self, inp):
        import importlib, sys as _sys, tempfile, os, argparse, contextlib
        importlib.import_module('moPepGen.cli')
        M = _sys.modules['moPepGen.cli.call_variant_peptide']
        n = len(inp['skip'])
        txs = [f'TX{i}' for i in range(n)]
        processed, added, events = [], [], []
        tmp = tempfile.mkdtemp(prefix='pyvc_c06h_')

        class Rank(dict):
            pass

        class FakeCaller:
            def __init__(s, args):
                s.args = args
                s.threads = inp['threads']
                s.cleavage_params = object()
                s.graph_output_dir = None
                s.peptide_table_output_path = os.path.join(tmp, 'table.txt')
                s.output_path = os.path.join(tmp, 'out.fasta')
                s.variant_record_pool = types.SimpleNamespace(gvf_files=[], pointers={t: [] for t in reversed(txs)})
                s.reference_data = types.SimpleNamespace(
                    anno=types.SimpleNamespace(get_transcript_rank=lambda: {t: i for i, t in enumerate(txs)}),
                    canonical_peptides=set())
                s.tally = None
                s.logger = None
            def load_reference(s):
                pass
            def create_in_disk_variant_pool(s):
                pass
            def gather_data_for_call_variant(s, tx_id, pool):
                i = txs.index(tx_id)
                if inp['skip'][i]:
                    return None
                return {'tx_id': tx_id}
            def write_dgraphs(s, *a):
                pass
            def write_pgraphs(s, *a):
                pass

        class FakeOpener:
            def __init__(s, pool):
                s.pool = pool
            def __enter__(s):
                return s.pool
            def __exit__(s, *a):
                return False

        class FakeTable:
            def __init__(s, handle):
                s.index = {}
            def write_header(s):
                events.append('header')
            def is_valid(s, seq, canonical_peptides, cleavage_params):
                return not seq.endswith('!')
            def add_peptide(s, seq, anno):
                added.append((seq, anno))
                s.index[seq] = 1
            def write_fasta(s, path):
                events.append('fasta')

        def fake_reducer(dispatch):
            tx = dispatch['tx_id']
            processed.append(tx)
            i = txs.index(tx)
            flags = (not inp['fail'][i], True, True)
            return ({f'PEP{i}': ['a', 'b'], f'BAD{i}!': ['c']}, tx, None, None, flags)

        class FakePool:
            def __init__(s, ncpus=None):
                pass
            def map(s, fn, xs):
                return [fn(x) for x in xs]

        tallies = {}
        orig = dict(VariantPeptideCaller=M.VariantPeptideCaller, caller_reducer=M.caller_reducer, ParallelPool=M.ParallelPool,
                    Opener=M.seqvar.VariantRecordPoolOnDiskOpener, Table=M.svgraph.VariantPeptideTable, psm=M.common.print_start_message,
                    log=M.TallyTable.log)
        M.VariantPeptideCaller, M.caller_reducer, M.ParallelPool = FakeCaller, fake_reducer, FakePool
        M.seqvar.VariantRecordPoolOnDiskOpener, M.svgraph.VariantPeptideTable = FakeOpener, FakeTable
        M.common.print_start_message = lambda a: None
        M.TallyTable.log = lambda s: tallies.update(failed=dict(s.n_transcripts_failed), processed=s.n_transcripts_processed, total=s.n_total_peptides)
        try:
            M.call_variant_peptide(argparse.Namespace())
        finally:
            M.VariantPeptideCaller, M.caller_reducer, M.ParallelPool = orig['VariantPeptideCaller'], orig['caller_reducer'], orig['ParallelPool']
            M.seqvar.VariantRecordPoolOnDiskOpener, M.svgraph.VariantPeptideTable = orig['Opener'], orig['Table']
            M.common.print_start_message, M.TallyTable.log = orig['psm'], orig['log']
            import shutil
            shutil.rmtree(tmp, ignore_errors=True)
        want = [t for i, t in enumerate(txs) if not inp['skip'][i]]
        if processed != want:
            return dict(observed=dict(processed=processed), expected=dict(processed=want))
        wadd = [(f'PEP{txs.index(t)}', x) for t in want for x in ('a', 'b')]
        if added != wadd:
            return dict(observed=dict(added=added[:6]), expected=dict(added=wadd[:6]))
        nfail = sum(1 for i, t in enumerate(txs) if not inp['skip'][i] and inp['fail'][i])
        if tallies.get('failed', {}).get('variant') != nfail or tallies.get('processed') != len(want) or tallies.get('total') != 2 * len(want):
            return dict(observed=tallies, expected=dict(variant_failed=nfail, processed=len(want), total=2 * len(want)))
        if events != ['header', 'fasta']:
            return dict(observed=events, expected=['header', 'fasta'])
        return None


NATIVE = [NativePairedRuns(), NativeDispatchHarness()]
