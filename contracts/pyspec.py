"""Executable spec functions (plain Python), written from the property statements.

They are the `ensures` of the bounded stand-ins and the CPython cross-check of the encoder;
the same rule table is turned into z3 predicates by contracts/c10.py.
"""
from __future__ import annotations
import itertools

LETTERS = 'ABCDEFGHIJKLMNOPQRSTUVWXYZ'
ALPHABET = LETTERS + '*'

# ExPASy PeptideCutter rules: alternatives over the positions P4 P3 P2 P1 | P1' P2'
# (cleavage between P1 and P1').  'KR' = residue in the set; '^P' = a residue is present and is
# not in the set (any symbol incl. '*'); 'w' = any letter A-Z; absent key = unconstrained.
W = 'w'
RULES = {
    'arg-c': [dict(P1='R')],
    'asp-n': [dict(P1=W, P1p='D')],
    'bnps-skatole': [dict(P1='W')],
    'caspase 1': [dict(P4='FWYL', P3=W, P2='HAT', P1='D', P1p='^PEDQKR')],
    'caspase 2': [dict(P4='D', P3='V', P2='A', P1='D', P1p='^PEDQKR')],
    'caspase 3': [dict(P4='D', P3='M', P2='Q', P1='D', P1p='^PEDQKR')],
    'caspase 4': [dict(P4='L', P3='E', P2='V', P1='D', P1p='^PEDQKR')],
    'caspase 5': [dict(P4='LW', P3='E', P2='H', P1='D')],
    'caspase 6': [dict(P4='V', P3='E', P2='HI', P1='D', P1p='^PEDQKR')],
    'caspase 7': [dict(P4='D', P3='E', P2='V', P1='D', P1p='^PEDQKR')],
    'caspase 8': [dict(P4='IL', P3='E', P2='T', P1='D', P1p='^PEDQKR')],
    'caspase 9': [dict(P4='L', P3='E', P2='H', P1='D')],
    'caspase 10': [dict(P4='I', P3='E', P2='A', P1='D')],
    'chymotrypsin high specificity': [dict(P1='FY', P1p='^P'), dict(P1='W', P1p='^MP')],
    'chymotrypsin low specificity': [dict(P1='FLY', P1p='^P'), dict(P1='W', P1p='^MP'),
                                     dict(P1='M', P1p='^PY'), dict(P1='H', P1p='^DMPW')],
    'clostripain': [dict(P1='R')],
    'cnbr': [dict(P1='M')],
    'enterokinase': [dict(P4='DE', P3='DE', P2='DE', P1='K')],
    'factor xa': [dict(P4='AFGILTVM', P3='DE', P2='G', P1='R')],
    'formic acid': [dict(P1='D')],
    'glutamyl endopeptidase': [dict(P1='E')],
    'granzyme b': [dict(P4='I', P3='E', P2='P', P1='D')],
    'hydroxylamine': [dict(P1='N', P1p='G')],
    'iodosobenzoic acid': [dict(P1='W')],
    'lysc': [dict(P1='K')],
    'lysn': [dict(P1=W, P1p='K')],
    'ntcb': [dict(P1=W, P1p='C')],
    'pepsin ph1.3': [dict(P3='^HKR', P2='^P', P1='^R', P1p='FL', P2p='^P'),
                     dict(P3='^HKR', P2='^P', P1='FL', P1p=W, P2p='^P')],
    'pepsin ph2.0': [dict(P3='^HKR', P2='^P', P1='^R', P1p='FLWY', P2p='^P'),
                     dict(P3='^HKR', P2='^P', P1='FLWY', P1p=W, P2p='^P')],
    'proline endopeptidase': [dict(P2='HKR', P1='P', P1p='^P')],
    'proteinase k': [dict(P1='AEFILTVWY')],
    'staphylococcal peptidase i': [dict(P2='^E', P1='E')],
    'thermolysin': [dict(P1='^DE', P1p='AFILMV')],
    'thrombin': [dict(P2='G', P1='R', P1p='G'),
                 dict(P4='AFGILTVM', P3='AFGILTVWA', P2='P', P1='R', P1p='^DE', P2p='^DE')],
    'trypsin': [dict(P1='KR', P1p='^P'), dict(P2='W', P1='K', P1p='P'), dict(P2='M', P1='R', P1p='P')],
    'trypsin_exception': [dict(P2='CD', P1='K', P1p='D'), dict(P2='C', P1='K', P1p='HY'),
                          dict(P2='C', P1='R', P1p='K'), dict(P2='R', P1='R', P1p='HR')],
}
POS = {'P4': -4, 'P3': -3, 'P2': -2, 'P1': -1, 'P1p': 0, 'P2p': 1}


def cell_ok(spec, ch):
    """ch is a character or None (beyond either end of the sequence)"""
    if ch is None:
        return False
    if spec == W:
        return ch in LETTERS or ch.isalnum() or ch == '_'
    if spec.startswith('^'):
        return ch not in spec[1:]
    return ch in spec


def is_site(seq, site, rule):
    """True iff `rule` cleaves `seq` between seq[site-1] and seq[site] (0 < site <= len)."""
    for alt in RULES[rule]:
        ok = True
        for p, spec in alt.items():
            i = site + POS[p]
            ch = seq[i] if 0 <= i < len(seq) else None
            if not cell_ok(spec, ch):
                ok = False
                break
        if ok:
            return True
    return False


def resolve_exception(rule, exception):
    if exception == 'auto':
        return 'trypsin_exception' if rule == 'trypsin' else None
    return exception


def cleave_sites(seq, rule, exception=None):
    out = []
    for s in range(1, len(seq) + 1):
        if is_site(seq, s, rule) and not (exception and is_site(seq, s, exception)):
            out.append(s)
    return out


MONO = None


def mol_weight(pep):
    from Bio import SeqUtils
    return SeqUtils.molecular_weight(pep, 'protein')


def keep(pep, min_mw, min_length, max_length):
    if 'X' in pep:
        return False
    try:
        mw = mol_weight(pep)
    except ValueError:
        return False
    return mw > min_mw and min_length <= len(pep) <= max_length


def digest(seq, rule, exception=None, miscleavage=2, min_mw=500., min_length=7, max_length=25,
           cds_start_nf=False, filt=True):
    """All digestion products with at most `miscleavage` missed sites (+ N-terminal M removal)."""
    S = [0] + [s for s in cleave_sites(seq, rule, exception) if s < len(seq)] + [len(seq)]
    S = sorted(set(S))
    out = set()
    for a in range(len(S) - 1):
        for b in range(a + 1, min(len(S), a + miscleavage + 2)):
            pep = seq[S[a]:S[b]]
            cands = [pep]
            if a == 0 and not cds_start_nf and pep.startswith('M'):
                cands.append(pep[1:])
            for c in cands:
                if not filt or keep(c, min_mw, min_length, max_length):
                    out.add(c)
    return out


def canonical_pool(proteins, rule, exception=None, miscleavage=2, min_mw=500., min_length=7,
                   max_length=25, cds_start_nf=None):
    """proteins: dict tx -> sequence; cds_start_nf: set of tx ids"""
    pool = set()
    for tx, seq in proteins.items():
        seq = seq.lstrip('X') if seq.startswith('X') else seq
        i = seq.find('*')
        if i > -1:
            seq = seq[:i]
        if 'X' in seq:
            # the real code retries with the part before the first X when Biopython rejects X
            pass
        for p in digest(seq, rule, exception, miscleavage, min_mw, min_length, max_length,
                        cds_start_nf=bool(cds_start_nf and tx in cds_start_nf)):
            pool.add(p)
            pool.add(p.replace('I', 'L'))
    return pool


CODON = None


def translate(dna):
    from Bio.Seq import Seq
    n = len(dna) - len(dna) % 3
    return str(Seq(dna[:n]).translate())


def revcomp(s):
    return s.translate(str.maketrans('ACGTacgtNn', 'TGCAtgcaNn'))[::-1]


def w2f_forms(pep):
    """all substitutions of a non-empty subset of W by F, with the 1-based positions"""
    ws = [i for i, c in enumerate(pep) if c == 'W']
    out = {}
    for r in range(1, len(ws) + 1):
        for sub in itertools.combinations(ws, r):
            s = list(pep)
            for i in sub:
                s[i] = 'F'
            out[''.join(s)] = sub
    return out
