"""Source table for MANIFEST.json (bin/mkmanifest)."""
TECH = 'contract-based deductive verification (pyvc VC generator over the real AST + z3/cvc5)'
NOTES = ('Every check re-reads the functions from /repo on each run, generates VCs and discharges them with z3 (cvc5 on unknown). '
         'Exit 0 held / 1 violation (+replay) / 2 undecided / 3 checker crash. Bounded stand-ins are labelled in the evidence and never counted as proved.')

CHECKS = {
    'C11': dict(category='proof', design_ref='DESIGN.md §3 C11', technique=TECH,
                text='Coordinate conversions (genomic<->gene<->transcript) proved against spec functions for all exon structures, positions and both strands; mutual inverses as lemmas over the contracts.',
                note='Assumes well-formed exon lists (sorted, disjoint, non-adjacent: what sort_records/GTF give), Biopython location semantics; GTF text round trip and on-disk cache not yet under contract in this revision.'),
    'C06': dict(category='proof', design_ref='DESIGN.md §3 C06', technique=TECH + '; labelled bounded paired runs for hash seed / worker purity',
                text='The dispatch loop of the real call_variant_peptide is executed symbolically for all transcript counts, skip patterns and thread counts: every non-skipped transcript is gathered, batched and handed to caller_reducer exactly once and in order, nothing is pending at exit (inductive invariant + exit obligation).',
                note='gather_data_for_call_variant, caller_reducer/ParallelPool.map and the peptide table are assumed contracts (uninterpreted d, r; order-preserving map). Hash-seed independence, worker purity, file layout/.idx/index-dir equivalence: bounded paired runs on the demo inputs only (evidence: coverage.bounded).'),
    'C07': dict(category='proof', design_ref='DESIGN.md §3 C07', technique=TECH + '; labelled bounded fault injection for output equality',
                text='call_variant_peptides_wrapper is executed symbolically with every per-unit caller havocked (returns or raises anything), for any number of fusions/circRNAs: definite assignment on all exceptional paths, a failed unit merges no peptides and stores no graph, success flags false iff a unit of that kind failed, a failure without --skip-failed always propagates and never reaches write_fasta; tally increments proved in the result loop of call_variant_peptide.',
                note='The per-unit callers and the closure add_peptide_anno are assumed (havoc / first-wins merge). Output = failure-free output minus failing units: bounded fault-injection runs on the demo inputs, threads=1 (evidence: coverage.bounded). Parser CLI loops not yet under contract.'),
    'C08': dict(category='proof', design_ref='DESIGN.md §3 C08', technique=TECH + '; labelled bounded definitional oracle for peptide content',
                text='The transcript-selection loop of the real call_novel_orf_peptide is proved for all annotations and option values: call_noncoding_peptide_main(tx) is reached iff tx is selected by the options as the property states (coding only with --coding-novel-orf; biotype, proteome and length filters); every peptide goes through VariantPeptidePool.add_peptide with the global canonical pool and the run parameters.',
                note='Peptide content = three-frame ORF digest minus canonical pool, and ORF FASTA coordinates: bounded oracle on the demo reference over an option lattice only (evidence: coverage.bounded); one known finding (K2) there. call_noncoding_peptide_main is havocked.'),
    'C10': dict(category='proof', design_ref='DESIGN.md §3 C10', technique=TECH + ' incl. regex-to-window-predicate compilation; labelled bounded digest oracle',
                text='For all strings of all lengths: each of the 36 regexes of the real EXPASY_RULES dict matches exactly where the ExPASy rule (written as residue sets for P4..P2\') cleaves and consumes one residue; the EXPASY_RULES2 range patterns pair one-to-one and in order with the sites (the inconsistent-sites error is unreachable); iter_enzymatic_cleave_sites yields all rule sites minus exception sites; the six parameters reaching create_unique_peptide_pool in generateIndex/updateIndex/load_references equal the fields of the CleavageParams the pool is registered, looked up and used with.',
                note='Alphabet A-Z and * assumed; re.finditer / regex overlapped=True semantics assumed (cross-checked natively). The miscleavage loops of enzymatic_cleave and create_unique_peptide_pool are covered by the bounded digest / pool oracle only (evidence: coverage.bounded), not proved.'),
    'C19': dict(category='proof', design_ref='DESIGN.md §3 C19', technique=TECH,
                text='The real VariantPeptidePool.filter is executed symbolically for all pools, headers, expression tables, cutoffs, flag combinations, denylists, miscleavage ranges and enzymes: an entry is appended to the kept list iff it satisfies the rule transcribed from the property statement, a peptide is kept iff some entry is kept and its site count is in range, sequences are never assigned; monotonicity in the cutoff and the miscleavage range are lemmas over that contract.',
                note='Header parsing (from_variant_peptide_minimal, str(entry)) and the site count are assumed contracts; idempotence on real headers and the CLI table loaders are covered by the bounded native check only.'),
    'C20': dict(category='proof', design_ref='DESIGN.md §3 C20', technique=TECH,
                text='The real reverse_sequence and shuffle_sequence are proved for all sequences and all fixed-index sets: output position q holds the target residue q if fixed, else the residue at the mirrored (resp. permuted) non-fixed position (loop invariant with the filter axiom, termination included); lemmas: that map is an involution / bijection, so the decoy is a rearrangement keeping every fixed position. find_fixed_indices returns exactly the requested positions plus the site indices; generate_decoy_sequence appends exactly one decoy with the target header plus decoy string; iteration orders; main sorts targets by sequence before seeding and generates one decoy per target in that order.',
                note='random.sample is assumed to return a permutation; the filter axiom for the comprehension is assumed and cross-checked natively. Known finding K1: the fixed index at a cleavage site is the residue after the bond, not the residue carrying the specificity (pinned by an existing test). Reproducibility and input-order independence of the whole command: bounded runs.'),
}

_PENDING = 'contracts for this property are not built yet in this revision (planned: see DESIGN.md §3); not claimed until they discharge'
NOT_APPLICABLE = {
    'C01': 'completeness of a 6 kLoC in-place pointer-graph algorithm against a 2^n haplotype oracle: no contract within reach of the VC generator (no heap/path-set model); see DESIGN.md §3 C01',
    'C02': 'realizability of every emitted peptide is a statement about the same graph construction/traversal; only local mechanisms (retry loop) are provable and are reported under C06; see DESIGN.md §3 C02',
    'C03': 'truthfulness of the variant set collected by traversal cursors is a graph property; label construction lemmas are reported under C04/C18; see DESIGN.md §3 C03',
}
for p in ['C04', 'C05', 'C06', 'C07', 'C08', 'C09', 'C10', 'C12', 'C13', 'C14', 'C15', 'C16', 'C17', 'C18', 'C19', 'C20']:
    if p not in CHECKS:
        NOT_APPLICABLE[p] = _PENDING
